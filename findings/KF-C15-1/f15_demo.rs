#![cfg(feature = "deadlock-detection")]
use rsactor::{message_handlers, spawn, Actor, ActorRef};
use std::sync::{Arc, Mutex};
use tokio::sync::oneshot;

#[derive(Actor)]
struct A { b: Option<ActorRef<B>> }
#[derive(Actor)]
struct B { a: Option<ActorRef<A>>, log: Arc<Mutex<Vec<String>>> }

struct SetB(ActorRef<B>);
struct SetA(ActorRef<A>);
struct Go;
struct Hello;
struct Ping;
struct Block(oneshot::Receiver<()>);
struct Reverse;

#[message_handlers]
impl A {
    #[handler] async fn set(&mut self, m: SetB, _: &ActorRef<Self>) { self.b = Some(m.0); }
    #[handler] async fn go(&mut self, _m: Go, _: &ActorRef<Self>) -> u32 {
        // A -> B, answered by B's Ping handler
        self.b.as_ref().unwrap().ask(Ping).await.unwrap()
    }
    #[handler] async fn hello(&mut self, _m: Hello, _: &ActorRef<Self>) -> u32 { 7 }
}
#[message_handlers]
impl B {
    #[handler] async fn set(&mut self, m: SetA, _: &ActorRef<Self>) { self.a = Some(m.0); }
    #[handler] async fn ping(&mut self, _m: Ping, _: &ActorRef<Self>) -> u32 { self.log.lock().unwrap().push("ping answered".into()); 1 }
    #[handler] async fn block(&mut self, m: Block, _: &ActorRef<Self>) { let _ = m.0.await; }
    #[handler] async fn reverse(&mut self, _m: Reverse, _: &ActorRef<Self>) -> u32 {
        // later: B -> A. A's ask to B has ALREADY been answered.
        self.log.lock().unwrap().push("reverse starts".into());
        let r = self.a.as_ref().unwrap().ask(Hello).await.unwrap();
        self.log.lock().unwrap().push("reverse done".into());
        r
    }
}

#[tokio::test]
async fn answered_ask_does_not_count_as_a_wait_edge() {
    let log = Arc::new(Mutex::new(Vec::new()));
    let (a, ja) = spawn::<A>(A { b: None });
    let (b, jb) = spawn::<B>(B { a: None, log: log.clone() });
    a.ask(SetB(b.clone())).await.unwrap();
    b.ask(SetA(a.clone())).await.unwrap();
    // B is busy; A's Ping and then our Reverse queue up behind it, in that order
    let (tx, rx) = oneshot::channel();
    b.tell(Block(rx)).await.unwrap();
    let a2 = a.clone();
    let go = tokio::spawn(async move { a2.ask(Go).await });
    tokio::time::sleep(std::time::Duration::from_millis(100)).await; // A's handler is now waiting for B
    let b2 = b.clone();
    let rev = tokio::spawn(async move { b2.ask(Reverse).await });
    tokio::time::sleep(std::time::Duration::from_millis(100)).await;
    tx.send(()).unwrap(); // B: finishes Block, answers Ping, then handles Reverse back-to-back
    let go_r = tokio::time::timeout(std::time::Duration::from_secs(5), go).await.expect("go hangs").unwrap();
    let rev_r = tokio::time::timeout(std::time::Duration::from_secs(5), rev).await.expect("reverse hangs").unwrap();
    println!("log = {:?}", log.lock().unwrap());
    println!("go = {:?}, reverse = {:?}", go_r, rev_r);
    assert_eq!(go_r.unwrap(), 1);
    assert_eq!(rev_r.expect("B asked A after A's ask had been answered: no cycle of unanswered asks, yet B failed"), 7);
    // (A and B hold references to each other, so they stay alive: no join here)
    drop((a, b, ja, jb));
}
