macro_rules! doc {
    ($select:item) => {
        /// Waits on multiple concurrent branches, returning when the **first** branch
        /// completes, cancelling the remaining branches.
        ///
        /// The `select!` macro must be used inside of async functions, closures, and
        /// blocks.
        ///
        /// The `select!` macro accepts one or more branches with the following pattern:
        ///
        /// ```text
        /// <pattern> = <async expression> (, if <precondition>)? => <handler>,
        /// ```
        ///
        /// Additionally, the `select!` macro may include a single, optional `else`
        /// branch, which evaluates if none of the other branches match their patterns:
        ///
        /// ```text
        /// else => <expression>
        /// ```
        ///
        /// The macro aggregates all `<async expression>` expressions and runs them
        /// concurrently on the **current** task. Once the **first** expression
        /// completes with a value that matches its `<pattern>`, the `select!` macro
        /// returns the result of evaluating the completed branch's `<handler>`
        /// expression.
        ///
        /// Additionally, each branch may include an optional `if` precondition. If the
        /// precondition returns `false`, then the branch is disabled. The provided
        /// `<async expression>` is still evaluated but the resulting future is never
        /// polled. This capability is useful when using `select!` within a loop.
        ///
        /// The complete lifecycle of a `select!` expression is as follows:
        ///
        /// 1. Evaluate all provided `<precondition>` expressions. If the precondition
        ///    returns `false`, disable the branch for the remainder of the current call
        ///    to `select!`. Re-entering `select!` due to a loop clears the "disabled"
        ///    state.
        /// 2. Aggregate the `<async expression>`s from each branch, including the
        ///    disabled ones. If the branch is disabled, `<async expression>` is still
        ///    evaluated, but the resulting future is not polled.
        /// 3. If **all** branches are disabled: go to step 6.
        /// 4. Concurrently await on the results for all remaining `<async expression>`s.
        /// 5. Once an `<async expression>` returns a value, attempt to apply the value to the
        ///    provided `<pattern>`. If the pattern matches, evaluate the `<handler>` and return.
        ///    If the pattern **does not** match, disable the current branch for the remainder of
        ///    the current call to `select!`. Continue from step 3.
        /// 6. Evaluate the `else` expression. If no else expression is provided, panic.
        ///
        /// # Runtime characteristics
        ///
        /// By running all async expressions on the current task, the expressions are
        /// able to run **concurrently** but not in **parallel**. This means all
        /// expressions are run on the same thread and if one branch blocks the thread,
        /// all other expressions will be unable to continue. If parallelism is
        /// required, spawn each async expression using [`tokio::spawn`] and pass the
        /// join handle to `select!`.
        ///
        /// [`tokio::spawn`]: crate::spawn
        ///
        /// # Fairness
        ///
        /// By default, `select!` randomly picks a branch to check first. This provides
        /// some level of fairness when calling `select!` in a loop with branches that
        /// are always ready.
        ///
        /// This behavior can be overridden by adding `biased;` to the beginning of the
        /// macro usage. See the examples for details. This will cause `select` to poll
        /// the futures in the order they appear from top to bottom. There are a few
        /// reasons you may want this:
        ///
        /// - The random number generation of `tokio::select!` has a non-zero CPU cost
        /// - Your futures may interact in a way where known polling order is significant
        ///
        /// But there is an important caveat to this mode. It becomes your responsibility
        /// to ensure that the polling order of your futures is fair. If for example you
        /// are selecting between a stream and a shutdown future, and the stream has a
        /// huge volume of messages and zero or nearly zero time between them, you should
        /// place the shutdown future earlier in the `select!` list to ensure that it is
        /// always polled, and will not be ignored due to the stream being constantly
        /// ready.
        ///
        /// # Panics
        ///
        /// The `select!` macro panics if all branches are disabled **and** there is no
        /// provided `else` branch. A branch is disabled when the provided `if`
        /// precondition returns `false` **or** when the pattern does not match the
        /// result of `<async expression>`.
        ///
        /// # Cancellation safety
        ///
        /// When using `select!` in a loop to receive messages from multiple sources,
        /// you should make sure that the receive call is cancellation safe to avoid
        /// losing messages. This section goes through various common methods and
        /// describes whether they are cancel safe.  The lists in this section are not
        /// exhaustive.
        ///
        /// The following methods are cancellation safe:
        ///
        ///  * [`tokio::sync::mpsc::Receiver::recv`](crate::sync::mpsc::Receiver::recv)
        ///  * [`tokio::sync::mpsc::UnboundedReceiver::recv`](crate::sync::mpsc::UnboundedReceiver::recv)
        ///  * [`tokio::sync::broadcast::Receiver::recv`](crate::sync::broadcast::Receiver::recv)
        ///  * [`tokio::sync::watch::Receiver::changed`](crate::sync::watch::Receiver::changed)
        ///  * [`tokio::net::TcpListener::accept`](crate::net::TcpListener::accept)
        ///  * [`tokio::net::UnixListener::accept`](crate::net::UnixListener::accept)
        ///  * [`tokio::signal::unix::Signal::recv`](crate::signal::unix::Signal::recv)
        ///  * [`tokio::io::AsyncReadExt::read`](crate::io::AsyncReadExt::read) on any `AsyncRead`
        ///  * [`tokio::io::AsyncReadExt::read_buf`](crate::io::AsyncReadExt::read_buf) on any `AsyncRead`
        ///  * [`tokio::io::AsyncWriteExt::write`](crate::io::AsyncWriteExt::write) on any `AsyncWrite`
        ///  * [`tokio::io::AsyncWriteExt::write_buf`](crate::io::AsyncWriteExt::write_buf) on any `AsyncWrite`
        ///  * [`tokio_stream::StreamExt::next`](https://docs.rs/tokio-stream/0.1/tokio_stream/trait.StreamExt.html#method.next) on any `Stream`
        ///  * [`futures::stream::StreamExt::next`](https://docs.rs/futures/0.3/futures/stream/trait.StreamExt.html#method.next) on any `Stream`
        ///
        /// The following methods are not cancellation safe and can lead to loss of data:
        ///
        ///  * [`tokio::io::AsyncReadExt::read_exact`](crate::io::AsyncReadExt::read_exact)
        ///  * [`tokio::io::AsyncReadExt::read_to_end`](crate::io::AsyncReadExt::read_to_end)
        ///  * [`tokio::io::AsyncReadExt::read_to_string`](crate::io::AsyncReadExt::read_to_string)
        ///  * [`tokio::io::AsyncWriteExt::write_all`](crate::io::AsyncWriteExt::write_all)
        ///
        /// The following methods are not cancellation safe because they use a queue for
        /// fairness and cancellation makes you lose your place in the queue:
        ///
        ///  * [`tokio::sync::Mutex::lock`](crate::sync::Mutex::lock)
        ///  * [`tokio::sync::RwLock::read`](crate::sync::RwLock::read)
        ///  * [`tokio::sync::RwLock::write`](crate::sync::RwLock::write)
        ///  * [`tokio::sync::Semaphore::acquire`](crate::sync::Semaphore::acquire)
        ///  * [`tokio::sync::Notify::notified`](crate::sync::Notify::notified)
        ///
        /// To determine whether your own methods are cancellation safe, look for the
        /// location of uses of `.await`. This is because when an asynchronous method is
        /// cancelled, that always happens at an `.await`. If your function behaves
        /// correctly even if it is restarted while waiting at an `.await`, then it is
        /// cancellation safe.
        ///
        /// Cancellation safety can be defined in the following way: If you have a
        /// future that has not yet completed, then it must be a no-op to drop that
        /// future and recreate it. This definition is motivated by the situation where
        /// a `select!` is used in a loop. Without this guarantee, you would lose your
        /// progress when another branch completes and you restart the `select!` by
        /// going around the loop.
        ///
        /// Be aware that cancelling something that is not cancellation safe is not
        /// necessarily wrong. For example, if you are cancelling a task because the
        /// application is shutting down, then you probably don't care that partially
        /// read data is lost.
        ///
        /// # Examples
        ///
        /// Basic select with two branches.
        ///
        /// ```
        /// async fn do_stuff_async() {
        ///     // async work
        /// }
        ///
        /// async fn more_async_work() {
        ///     // more here
        /// }
        ///
        /// # #[tokio::main(flavor = "current_thread")]
        /// # async fn main() {
        /// tokio::select! {
        ///     _ = do_stuff_async() => {
        ///         println!("do_stuff_async() completed first")
        ///     }
        ///     _ = more_async_work() => {
        ///         println!("more_async_work() completed first")
        ///     }
        /// };
        /// # }
        /// ```
        ///
        /// Basic stream selecting.
        ///
        /// ```
        /// use tokio_stream::{self as stream, StreamExt};
        ///
        /// # #[tokio::main(flavor = "current_thread")]
        /// # async fn main() {
        /// let mut stream1 = stream::iter(vec![1, 2, 3]);
        /// let mut stream2 = stream::iter(vec![4, 5, 6]);
        ///
        /// let next = tokio::select! {
        ///     v = stream1.next() => v.unwrap(),
        ///     v = stream2.next() => v.unwrap(),
        /// };
        ///
        /// assert!(next == 1 || next == 4);
        /// # }
        /// ```
        ///
        /// Collect the contents of two streams. In this example, we rely on pattern
        /// matching and the fact that `stream::iter` is "fused", i.e. once the stream
        /// is complete, all calls to `next()` return `None`.
        ///
        /// ```
        /// use tokio_stream::{self as stream, StreamExt};
        ///
        /// # #[tokio::main(flavor = "current_thread")]
        /// # async fn main() {
        /// let mut stream1 = stream::iter(vec![1, 2, 3]);
        /// let mut stream2 = stream::iter(vec![4, 5, 6]);
        ///
        /// let mut values = vec![];
        ///
        /// loop {
        ///     tokio::select! {
        ///         Some(v) = stream1.next() => values.push(v),
        ///         Some(v) = stream2.next() => values.push(v),
        ///         else => break,
        ///     }
        /// }
        ///
        /// values.sort();
        /// assert_eq!(&[1, 2, 3, 4, 5, 6], &values[..]);
        /// # }
        /// ```
        ///
        /// Using the same future in multiple `select!` expressions can be done by passing
        /// a reference to the future. Doing so requires the future to be [`Unpin`]. A
        /// future can be made [`Unpin`] by either using [`Box::pin`] or stack pinning.
        ///
        /// [`Unpin`]: std::marker::Unpin
        /// [`Box::pin`]: std::boxed::Box::pin
        ///
        /// Here, a stream is consumed for at most 1 second.
        ///
        /// ```
        /// use tokio_stream::{self as stream, StreamExt};
        /// use tokio::time::{self, Duration};
        ///
        /// # #[tokio::main(flavor = "current_thread")]
        /// # async fn main() {
        /// let mut stream = stream::iter(vec![1, 2, 3]);
        /// let sleep = time::sleep(Duration::from_secs(1));
        /// tokio::pin!(sleep);
        ///
        /// loop {
        ///     tokio::select! {
        ///         maybe_v = stream.next() => {
        ///             if let Some(v) = maybe_v {
        ///                 println!("got = {}", v);
        ///             } else {
        ///                 break;
        ///             }
        ///         }
        ///         _ = &mut sleep => {
        ///             println!("timeout");
        ///             break;
        ///         }
        ///     }
        /// }
        /// # }
        /// ```
        ///
        /// Joining two values using `select!`.
        ///
        /// ```
        /// use tokio::sync::oneshot;
        ///
        /// # #[tokio::main(flavor = "current_thread")]
        /// # async fn main() {
        /// let (tx1, mut rx1) = oneshot::channel();
        /// let (tx2, mut rx2) = oneshot::channel();
        ///
        /// tokio::spawn(async move {
        ///     tx1.send("first").unwrap();
        /// });
        ///
        /// tokio::spawn(async move {
        ///     tx2.send("second").unwrap();
        /// });
        ///
        /// let mut a = None;
        /// let mut b = None;
        ///
        /// while a.is_none() || b.is_none() {
        ///     tokio::select! {
        ///         v1 = (&mut rx1), if a.is_none() => a = Some(v1.unwrap()),
        ///         v2 = (&mut rx2), if b.is_none() => b = Some(v2.unwrap()),
        ///     }
        /// }
        ///
        /// let res = (a.unwrap(), b.unwrap());
        ///
        /// assert_eq!(res.0, "first");
        /// assert_eq!(res.1, "second");
        /// # }
        /// ```
        ///
        /// Using the `biased;` mode to control polling order.
        ///
        /// ```
        /// # #[tokio::main(flavor = "current_thread")]
        /// # async fn main() {
        /// let mut count = 0u8;
        ///
        /// loop {
        ///     tokio::select! {
        ///         // If you run this example without `biased;`, the polling order is
        ///         // pseudo-random, and the assertions on the value of count will
        ///         // (probably) fail.
        ///         biased;
        ///
        ///         _ = async {}, if count < 1 => {
        ///             count += 1;
        ///             assert_eq!(count, 1);
        ///         }
        ///         _ = async {}, if count < 2 => {
        ///             count += 1;
        ///             assert_eq!(count, 2);
        ///         }
        ///         _ = async {}, if count < 3 => {
        ///             count += 1;
        ///             assert_eq!(count, 3);
        ///         }
        ///         _ = async {}, if count < 4 => {
        ///             count += 1;
        ///             assert_eq!(count, 4);
        ///         }
        ///
        ///         else => {
        ///             break;
        ///         }
        ///     };
        /// }
        /// # }
        /// ```
        ///
        /// ## Avoid racy `if` preconditions
        ///
        /// Given that `if` preconditions are used to disable `select!` branches, some
        /// caution must be used to avoid missing values.
        ///
        /// For example, here is **incorrect** usage of `sleep` with `if`. The objective
        /// is to repeatedly run an asynchronous task for up to 50 milliseconds.
        /// However, there is a potential for the `sleep` completion to be missed.
        ///
        /// ```no_run,should_panic
        /// use tokio::time::{self, Duration};
        ///
        /// async fn some_async_work() {
        ///     // do work
        /// }
        ///
        /// # #[tokio::main(flavor = "current_thread")]
        /// # async fn main() {
        /// let sleep = time::sleep(Duration::from_millis(50));
        /// tokio::pin!(sleep);
        ///
        /// while !sleep.is_elapsed() {
        ///     tokio::select! {
        ///         _ = &mut sleep, if !sleep.is_elapsed() => {
        ///             println!("operation timed out");
        ///         }
        ///         _ = some_async_work() => {
        ///             println!("operation completed");
        ///         }
        ///     }
        /// }
        ///
        /// panic!("This example shows how not to do it!");
        /// # }
        /// ```
        ///
        /// In the above example, `sleep.is_elapsed()` may return `true` even if
        /// `sleep.poll()` never returned `Ready`. This opens up a potential race
        /// condition where `sleep` expires between the `while !sleep.is_elapsed()`
        /// check and the call to `select!` resulting in the `some_async_work()` call to
        /// run uninterrupted despite the sleep having elapsed.
        ///
        /// One way to write the above example without the race would be:
        ///
        /// ```
        /// use tokio::time::{self, Duration};
        ///
        /// async fn some_async_work() {
        /// # time::sleep(Duration::from_millis(10)).await;
        ///     // do work
        /// }
        ///
        /// # #[tokio::main(flavor = "current_thread")]
        /// # async fn main() {
        /// let sleep = time::sleep(Duration::from_millis(50));
        /// tokio::pin!(sleep);
        ///
        /// loop {
        ///     tokio::select! {
        ///         _ = &mut sleep => {
        ///             println!("operation timed out");
        ///             break;
        ///         }
        ///         _ = some_async_work() => {
        ///             println!("operation completed");
        ///         }
        ///     }
        /// }
        /// # }
        /// ```
        /// # Alternatives from the Ecosystem
        ///
        /// The `select!` macro is a powerful tool for managing multiple asynchronous
        /// branches, enabling tasks to run concurrently within the same thread. However,
        /// its use can introduce challenges, particularly around cancellation safety, which
        /// can lead to subtle and hard-to-debug errors. For many use cases, ecosystem
        /// alternatives may be preferable as they mitigate these concerns by offering
        /// clearer syntax, more predictable control flow, and reducing the need to manually
        /// handle issues like fuse semantics or cancellation safety.
        ///
        /// ## Merging Streams
        ///
        /// For cases where `loop { select! { ... } }` is used to poll multiple tasks,
        /// stream merging offers a concise alternative, inherently handle cancellation-safe
        /// processing, removing the risk of data loss. Libraries such as [`tokio_stream`],
        /// [`futures::stream`] and [`futures_concurrency`] provide tools for merging
        /// streams and handling their outputs sequentially.
        ///
        /// [`tokio_stream`]: https://docs.rs/tokio-stream/latest/tokio_stream/
        /// [`futures::stream`]: https://docs.rs/futures/latest/futures/stream/
        /// [`futures_concurrency`]: https://docs.rs/futures-concurrency/latest/futures_concurrency/
        ///
        /// ### Example with `select!`
        ///
        /// ```
        /// struct File;
        /// struct Channel;
        /// struct Socket;
        ///
        /// impl Socket {
        ///     async fn read_packet(&mut self) -> Vec<u8> {
        ///         vec![]
        ///     }
        /// }
        ///
        /// async fn read_send(_file: &mut File, _channel: &mut Channel) {
        ///     // do work that is not cancel safe
        /// }
        ///
        /// # #[tokio::main(flavor = "current_thread")]
        /// # async fn main() {
        /// // open our IO types
        /// let mut file = File;
        /// let mut channel = Channel;
        /// let mut socket = Socket;
        ///
        /// loop {
        ///     tokio::select! {
        ///         _ = read_send(&mut file, &mut channel) => { /* ... */ },
        ///         _data = socket.read_packet() => { /* ... */ }
        ///         _ = futures::future::ready(()) => break
        ///     }
        /// }
        /// # }
        /// ```
        ///
        /// ### Moving to `merge`
        ///
        /// By using merge, you can unify multiple asynchronous tasks into a single stream,
        /// eliminating the need to manage tasks manually and reducing the risk of
        /// unintended behavior like data loss.
        ///
        /// ```
        /// use std::pin::pin;
        ///
        /// use futures::stream::unfold;
        /// use tokio_stream::StreamExt;
        ///
        /// struct File;
        /// struct Channel;
        /// struct Socket;
        ///
        /// impl Socket {
        ///     async fn read_packet(&mut self) -> Vec<u8> {
        ///         vec![]
        ///     }
        /// }
        ///
        /// async fn read_send(_file: &mut File, _channel: &mut Channel) {
        ///     // do work that is not cancel safe
        /// }
        ///
        /// enum Message {
        ///     Stop,
        ///     Sent,
        ///     Data(Vec<u8>),
        /// }
        ///
        /// # #[tokio::main(flavor = "current_thread")]
        /// # async fn main() {
        /// // open our IO types
        /// let file = File;
        /// let channel = Channel;
        /// let socket = Socket;
        ///
        /// let a = unfold((file, channel), |(mut file, mut channel)| async {
        ///     read_send(&mut file, &mut channel).await;
        ///     Some((Message::Sent, (file, channel)))
        /// });
        /// let b = unfold(socket, |mut socket| async {
        ///     let data = socket.read_packet().await;
        ///     Some((Message::Data(data), socket))
        /// });
        /// let c = tokio_stream::iter([Message::Stop]);
        ///
        /// let mut s = pin!(a.merge(b).merge(c));
        /// while let Some(msg) = s.next().await {
        ///     match msg {
        ///         Message::Data(_data) => { /* ... */ }
        ///         Message::Sent => continue,
        ///         Message::Stop => break,
        ///     }
        /// }
        /// # }
        /// ```
        ///
        /// ## Racing Futures
        ///
        /// If you need to wait for the first completion among several asynchronous tasks,
        /// ecosystem utilities such as
        /// [`futures`](https://docs.rs/futures/latest/futures/),
        /// [`futures-lite`](https://docs.rs/futures-lite/latest/futures_lite/) or
        /// [`futures-concurrency`](https://docs.rs/futures-concurrency/latest/futures_concurrency/)
        /// provide streamlined syntax for racing futures:
        ///
        /// - [`futures_concurrency::future::Race`](https://docs.rs/futures-concurrency/latest/futures_concurrency/future/trait.Race.html)
        /// - [`futures::select`](https://docs.rs/futures/latest/futures/macro.select.html)
        /// - [`futures::stream::select_all`](https://docs.rs/futures/latest/futures/stream/select_all/index.html) (for streams)
        /// - [`futures_lite::future::or`](https://docs.rs/futures-lite/latest/futures_lite/future/fn.or.html)
        /// - [`futures_lite::future::race`](https://docs.rs/futures-lite/latest/futures_lite/future/fn.race.html)
        ///
        /// ```
        /// use futures_concurrency::future::Race;
        ///
        /// # #[tokio::main(flavor = "current_thread")]
        /// # async fn main() {
        /// let task_a = async { Ok("ok") };
        /// let task_b = async { Err("error") };
        /// let result = (task_a, task_b).race().await;
        ///
        /// match result {
        ///     Ok(output) => println!("First task completed with: {output}"),
        ///     Err(err) => eprintln!("Error occurred: {err}"),
        /// }
        /// # }
        /// ```
        #[macro_export]
        #[cfg_attr(docsrs, doc(cfg(feature = "macros")))]
        $select
    };
}

#[cfg(doc)]
doc! {macro_rules! select {
    {
        $(
            biased;
        )?
        $(
            $bind:pat = $fut:expr $(, if $cond:expr)? => $handler:expr,
        )*
        $(
            else => $els:expr $(,)?
        )?
    } => {
        unimplemented!()
    };
}}

#[cfg(not(doc))]
doc! {macro_rules! select {
    // Uses a declarative macro to do **most** of the work. While it is possible
    // to implement fully with a declarative macro, a procedural macro is used
    // to enable improved error messages.
    //
    // The macro is structured as a tt-muncher. All branches are processed and
    // normalized. Once the input is normalized, it is passed to the top-most
    // rule. When entering the macro, `@{ }` is inserted at the front. This is
    // used to collect the normalized input.
    //
    // The macro only recurses once per branch. This allows using `select!`
    // without requiring the user to increase the recursion limit.

    // All input is normalized, now transform.
    (@ {
        // The index of the future to poll first (in bias mode), or the RNG
        // expression to use to pick a future to poll first.
        start=$start:expr;

        // One `_` for each branch in the `select!` macro. Passing this to
        // `count!` converts $skip to an integer.
        ( $($count:tt)* )

        // Normalized select branches. `( $skip )` is a set of `_` characters.
        // There is one `_` for each select branch **before** this one. Given
        // that all input futures are stored in a tuple, $skip is useful for
        // generating a pattern to reference the future for the current branch.
        // $skip is also used as an argument to `count!`, returning the index of
        // the current select branch.
        $( ( $($skip:tt)* ) $bind:pat = $fut:expr, if $c:expr => $handle:expr, )+

        // Fallback expression used when all select branches have been disabled.
        ; $else:expr

    }) => {{
        // Enter a context where stable "function-like" proc macros can be used.
        //
        // This module is defined within a scope and should not leak out of this
        // macro.
        #[doc(hidden)]
        mod __tokio_select_util {
            // Generate an enum with one variant per select branch
            $crate::select_priv_declare_output_enum!( ( $($count)* ) );
        }

        // `tokio::macros::support` is a public, but doc(hidden) module
        // including a re-export of all types needed by this macro.
        use $crate::macros::support::Future;
        use $crate::macros::support::Pin;
        use $crate::macros::support::Poll::{Ready, Pending};

        const BRANCHES: u32 = $crate::count!( $($count)* );

        let mut disabled: __tokio_select_util::Mask = Default::default();

        // First, invoke all the pre-conditions. For any that return true,
        // set the appropriate bit in `disabled`.
        $(
            if !$c {
                let mask: __tokio_select_util::Mask = 1 << $crate::count!( $($skip)* );
                disabled |= mask;
            }
        )*

        // Create a scope to separate polling from handling the output. This
        // adds borrow checker flexibility when using the macro.
        let mut output = {
            // Store each future directly first (that is, without wrapping the future in a call to
            // `IntoFuture::into_future`). This allows the `$fut` expression to make use of
            // temporary lifetime extension.
            //
            // https://doc.rust-lang.org/1.58.1/reference/destructors.html#temporary-lifetime-extension
            let futures_init = ($( $fut, )+);

            // Safety: Nothing must be moved out of `futures`. This is to
            // satisfy the requirement of `Pin::new_unchecked` called below.
            //
            // We can't use the `pin!` macro for this because `futures` is a
            // tuple and the standard library provides no way to pin-project to
            // the fields of a tuple.
            let mut futures = ($( $crate::macros::support::IntoFuture::into_future(
                        $crate::count_field!( futures_init.$($skip)* )
            ),)+);

            // This assignment makes sure that the `poll_fn` closure only has a
            // reference to the futures, instead of taking ownership of them.
            // This mitigates the issue described in
            // <https://internals.rust-lang.org/t/surprising-soundness-trouble-around-pollfn/17484>
            let mut futures = &mut futures;

            $crate::macros::support::poll_fn(|cx| {
                // Return `Pending` when the task budget is depleted since budget-aware futures
                // are going to yield anyway and other futures will not cooperate.
                ::std::task::ready!($crate::macros::support::poll_budget_available(cx));

                // Track if any branch returns pending. If no branch completes
                // **or** returns pending, this implies that all branches are
                // disabled.
                let mut is_pending = false;

                // Choose a starting index to begin polling the futures at. In
                // practice, this will either be a pseudo-randomly generated
                // number by default, or the constant 0 if `biased;` is
                // supplied.
                let start = $start;

                for i in 0..BRANCHES {
                    let branch;
                    #[allow(clippy::modulo_one)]
                    {
                        branch = (start + i) % BRANCHES;
                    }
                    match branch {
                        $(
                            #[allow(unreachable_code)]
                            $crate::count!( $($skip)* ) => {
                                // First, if the future has previously been
                                // disabled, do not poll it again. This is done
                                // by checking the associated bit in the
                                // `disabled` bit field.
                                let mask = 1 << branch;

                                if disabled & mask == mask {
                                    // The future has been disabled.
                                    continue;
                                }

                                // Extract the future for this branch from the
                                // tuple
                                let ( $($skip,)* fut, .. ) = &mut *futures;

                                // Safety: future is stored on the stack above
                                // and never moved.
                                let mut fut = unsafe { Pin::new_unchecked(fut) };

                                // Try polling it
                                let out = match Future::poll(fut, cx) {
                                    Ready(out) => out,
                                    Pending => {
                                        // Track that at least one future is
                                        // still pending and continue polling.
                                        is_pending = true;
                                        continue;
                                    }
                                };

                                // Disable the future from future polling.
                                disabled |= mask;

                                // The future returned a value, check if matches
                                // the specified pattern.
                                #[allow(unused_variables)]
                                #[allow(unused_mut)]
                                match &out {
                                    $crate::select_priv_clean_pattern!($bind) => {}
                                    _ => continue,
                                }

                                // The select is complete, return the value
                                return Ready($crate::select_variant!(__tokio_select_util::Out, ($($skip)*))(out));
                            }
                        )*
                        _ => unreachable!("reaching this means there probably is an off by one bug"),
                    }
                }

                if is_pending {
                    Pending
                } else {
                    // All branches have been disabled.
                    Ready(__tokio_select_util::Out::Disabled)
                }
            }).await
        };

        match output {
            $(
                $crate::select_variant!(__tokio_select_util::Out, ($($skip)*) ($bind)) => $handle,
            )*
            __tokio_select_util::Out::Disabled => $else,
            _ => unreachable!("failed to match bind"),
        }
    }};

    // ==== Normalize =====

    // These rules match a single `select!` branch and normalize it for
    // processing by the first rule.

    (@ { start=$start:expr; $($t:tt)* } ) => {
        // No `else` branch
        $crate::select!(@{ start=$start; $($t)*; panic!("all branches are disabled and there is no else branch") })
    };
    (@ { start=$start:expr; $($t:tt)* } else => $else:expr $(,)?) => {
        $crate::select!(@{ start=$start; $($t)*; $else })
    };
    (@ { start=$start:expr; ( $($s:tt)* ) $($t:tt)* } $p:pat = $f:expr, if $c:expr => $h:block, $($r:tt)* ) => {
        $crate::select!(@{ start=$start; ($($s)* _) $($t)* ($($s)*) $p = $f, if $c => $h, } $($r)*)
    };
    (@ { start=$start:expr; ( $($s:tt)* ) $($t:tt)* } $p:pat = $f:expr => $h:block, $($r:tt)* ) => {
        $crate::select!(@{ start=$start; ($($s)* _) $($t)* ($($s)*) $p = $f, if true => $h, } $($r)*)
    };
    (@ { start=$start:expr; ( $($s:tt)* ) $($t:tt)* } $p:pat = $f:expr, if $c:expr => $h:block $($r:tt)* ) => {
        $crate::select!(@{ start=$start; ($($s)* _) $($t)* ($($s)*) $p = $f, if $c => $h, } $($r)*)
    };
    (@ { start=$start:expr; ( $($s:tt)* ) $($t:tt)* } $p:pat = $f:expr => $h:block $($r:tt)* ) => {
        $crate::select!(@{ start=$start; ($($s)* _) $($t)* ($($s)*) $p = $f, if true => $h, } $($r)*)
    };
    (@ { start=$start:expr; ( $($s:tt)* ) $($t:tt)* } $p:pat = $f:expr, if $c:expr => $h:expr ) => {
        $crate::select!(@{ start=$start; ($($s)* _) $($t)* ($($s)*) $p = $f, if $c => $h, })
    };
    (@ { start=$start:expr; ( $($s:tt)* ) $($t:tt)* } $p:pat = $f:expr => $h:expr ) => {
        $crate::select!(@{ start=$start; ($($s)* _) $($t)* ($($s)*) $p = $f, if true => $h, })
    };
    (@ { start=$start:expr; ( $($s:tt)* ) $($t:tt)* } $p:pat = $f:expr, if $c:expr => $h:expr, $($r:tt)* ) => {
        $crate::select!(@{ start=$start; ($($s)* _) $($t)* ($($s)*) $p = $f, if $c => $h, } $($r)*)
    };
    (@ { start=$start:expr; ( $($s:tt)* ) $($t:tt)* } $p:pat = $f:expr => $h:expr, $($r:tt)* ) => {
        $crate::select!(@{ start=$start; ($($s)* _) $($t)* ($($s)*) $p = $f, if true => $h, } $($r)*)
    };

    // ===== Entry point =====

    ($(biased;)? else => $else:expr $(,)? ) => {{
        $else
    }};

    (biased; $p:pat = $($t:tt)* ) => {
        $crate::select!(@{ start=0; () } $p = $($t)*)
    };

    ( $p:pat = $($t:tt)* ) => {
        // Randomly generate a starting point. This makes `select!` a bit more
        // fair and avoids always polling the first future.
        $crate::select!(@{ start={ $crate::macros::support::thread_rng_n(BRANCHES) }; () } $p = $($t)*)
    };

    () => {
        compile_error!("select! requires at least one branch.")
    };
}}

// And here... we manually list out matches for up to 64 branches... I'm not
// happy about it either, but this is how we manage to use a declarative macro!

#[macro_export]
#[doc(hidden)]
macro_rules! count {
    () => {
        0
    };
    (_) => {
        1
    };
    (_ _) => {
        2
    };
    (_ _ _) => {
        3
    };
    (_ _ _ _) => {
        4
    };
    (_ _ _ _ _) => {
        5
    };
    (_ _ _ _ _ _) => {
        6
    };
    (_ _ _ _ _ _ _) => {
        7
    };
    (_ _ _ _ _ _ _ _) => {
        8
    };
    (_ _ _ _ _ _ _ _ _) => {
        9
    };
    (_ _ _ _ _ _ _ _ _ _) => {
        10
    };
    (_ _ _ _ _ _ _ _ _ _ _) => {
        11
    };
    (_ _ _ _ _ _ _ _ _ _ _ _) => {
        12
    };
    (_ _ _ _ _ _ _ _ _ _ _ _ _) => {
        13
    };
    (_ _ _ _ _ _ _ _ _ _ _ _ _ _) => {
        14
    };
    (_ _ _ _ _ _ _ _ _ _ _ _ _ _ _) => {
        15
    };
    (_ _ _ _ _ _ _ _ _ _ _ _ _ _ _ _) => {
        16
    };
    (_ _ _ _ _ _ _ _ _ _ _ _ _ _ _ _ _) => {
        17
    };
    (_ _ _ _ _ _ _ _ _ _ _ _ _ _ _ _ _ _) => {
        18
    };
    (_ _ _ _ _ _ _ _ _ _ _ _ _ _ _ _ _ _ _) => {
        19
    };
    (_ _ _ _ _ _ _ _ _ _ _ _ _ _ _ _ _ _ _ _) => {
        20
    };
    (_ _ _ _ _ _ _ _ _ _ _ _ _ _ _ _ _ _ _ _ _) => {
        21
    };
    (_ _ _ _ _ _ _ _ _ _ _ _ _ _ _ _ _ _ _ _ _ _) => {
        22
    };
    (_ _ _ _ _ _ _ _ _ _ _ _ _ _ _ _ _ _ _ _ _ _ _) => {
        23
    };
    (_ _ _ _ _ _ _ _ _ _ _ _ _ _ _ _ _ _ _ _ _ _ _ _) => {
        24
    };
    (_ _ _ _ _ _ _ _ _ _ _ _ _ _ _ _ _ _ _ _ _ _ _ _ _) => {
        25
    };
    (_ _ _ _ _ _ _ _ _ _ _ _ _ _ _ _ _ _ _ _ _ _ _ _ _ _) => {
        26
    };
    (_ _ _ _ _ _ _ _ _ _ _ _ _ _ _ _ _ _ _ _ _ _ _ _ _ _ _) => {
        27
    };
    (_ _ _ _ _ _ _ _ _ _ _ _ _ _ _ _ _ _ _ _ _ _ _ _ _ _ _ _) => {
        28
    };
    (_ _ _ _ _ _ _ _ _ _ _ _ _ _ _ _ _ _ _ _ _ _ _ _ _ _ _ _ _) => {
        29
    };
    (_ _ _ _ _ _ _ _ _ _ _ _ _ _ _ _ _ _ _ _ _ _ _ _ _ _ _ _ _ _) => {
        30
    };
    (_ _ _ _ _ _ _ _ _ _ _ _ _ _ _ _ _ _ _ _ _ _ _ _ _ _ _ _ _ _ _) => {
        31
    };
    (_ _ _ _ _ _ _ _ _ _ _ _ _ _ _ _ _ _ _ _ _ _ _ _ _ _ _ _ _ _ _ _) => {
        32
    };
    (_ _ _ _ _ _ _ _ _ _ _ _ _ _ _ _ _ _ _ _ _ _ _ _ _ _ _ _ _ _ _ _ _) => {
        33
    };
    (_ _ _ _ _ _ _ _ _ _ _ _ _ _ _ _ _ _ _ _ _ _ _ _ _ _ _ _ _ _ _ _ _ _) => {
        34
    };
    (_ _ _ _ _ _ _ _ _ _ _ _ _ _ _ _ _ _ _ _ _ _ _ _ _ _ _ _ _ _ _ _ _ _ _) => {
        35
    };
    (_ _ _ _ _ _ _ _ _ _ _ _ _ _ _ _ _ _ _ _ _ _ _ _ _ _ _ _ _ _ _ _ _ _ _ _) => {
        36
    };
    (_ _ _ _ _ _ _ _ _ _ _ _ _ _ _ _ _ _ _ _ _ _ _ _ _ _ _ _ _ _ _ _ _ _ _ _ _) => {
        37
    };
    (_ _ _ _ _ _ _ _ _ _ _ _ _ _ _ _ _ _ _ _ _ _ _ _ _ _ _ _ _ _ _ _ _ _ _ _ _ _) => {
        38
    };
    (_ _ _ _ _ _ _ _ _ _ _ _ _ _ _ _ _ _ _ _ _ _ _ _ _ _ _ _ _ _ _ _ _ _ _ _ _ _ _) => {
        39
    };
    (_ _ _ _ _ _ _ _ _ _ _ _ _ _ _ _ _ _ _ _ _ _ _ _ _ _ _ _ _ _ _ _ _ _ _ _ _ _ _ _) => {
        40
    };
    (_ _ _ _ _ _ _ _ _ _ _ _ _ _ _ _ _ _ _ _ _ _ _ _ _ _ _ _ _ _ _ _ _ _ _ _ _ _ _ _ _) => {
        41
    };
    (_ _ _ _ _ _ _ _ _ _ _ _ _ _ _ _ _ _ _ _ _ _ _ _ _ _ _ _ _ _ _ _ _ _ _ _ _ _ _ _ _ _) => {
        42
    };
    (_ _ _ _ _ _ _ _ _ _ _ _ _ _ _ _ _ _ _ _ _ _ _ _ _ _ _ _ _ _ _ _ _ _ _ _ _ _ _ _ _ _ _) => {
        43
    };
    (_ _ _ _ _ _ _ _ _ _ _ _ _ _ _ _ _ _ _ _ _ _ _ _ _ _ _ _ _ _ _ _ _ _ _ _ _ _ _ _ _ _ _ _) => {
        44
    };
    (_ _ _ _ _ _ _ _ _ _ _ _ _ _ _ _ _ _ _ _ _ _ _ _ _ _ _ _ _ _ _ _ _ _ _ _ _ _ _ _ _ _ _ _ _) => {
        45
    };
    (_ _ _ _ _ _ _ _ _ _ _ _ _ _ _ _ _ _ _ _ _ _ _ _ _ _ _ _ _ _ _ _ _ _ _ _ _ _ _ _ _ _ _ _ _ _) => {
        46
    };
    (_ _ _ _ _ _ _ _ _ _ _ _ _ _ _ _ _ _ _ _ _ _ _ _ _ _ _ _ _ _ _ _ _ _ _ _ _ _ _ _ _ _ _ _ _ _ _) => {
        47
    };
    (_ _ _ _ _ _ _ _ _ _ _ _ _ _ _ _ _ _ _ _ _ _ _ _ _ _ _ _ _ _ _ _ _ _ _ _ _ _ _ _ _ _ _ _ _ _ _ _) => {
        48
    };
    (_ _ _ _ _ _ _ _ _ _ _ _ _ _ _ _ _ _ _ _ _ _ _ _ _ _ _ _ _ _ _ _ _ _ _ _ _ _ _ _ _ _ _ _ _ _ _ _ _) => {
        49
    };
    (_ _ _ _ _ _ _ _ _ _ _ _ _ _ _ _ _ _ _ _ _ _ _ _ _ _ _ _ _ _ _ _ _ _ _ _ _ _ _ _ _ _ _ _ _ _ _ _ _ _) => {
        50
    };
    (_ _ _ _ _ _ _ _ _ _ _ _ _ _ _ _ _ _ _ _ _ _ _ _ _ _ _ _ _ _ _ _ _ _ _ _ _ _ _ _ _ _ _ _ _ _ _ _ _ _ _) => {
        51
    };
    (_ _ _ _ _ _ _ _ _ _ _ _ _ _ _ _ _ _ _ _ _ _ _ _ _ _ _ _ _ _ _ _ _ _ _ _ _ _ _ _ _ _ _ _ _ _ _ _ _ _ _ _) => {
        52
    };
    (_ _ _ _ _ _ _ _ _ _ _ _ _ _ _ _ _ _ _ _ _ _ _ _ _ _ _ _ _ _ _ _ _ _ _ _ _ _ _ _ _ _ _ _ _ _ _ _ _ _ _ _ _) => {
        53
    };
    (_ _ _ _ _ _ _ _ _ _ _ _ _ _ _ _ _ _ _ _ _ _ _ _ _ _ _ _ _ _ _ _ _ _ _ _ _ _ _ _ _ _ _ _ _ _ _ _ _ _ _ _ _ _) => {
        54
    };
    (_ _ _ _ _ _ _ _ _ _ _ _ _ _ _ _ _ _ _ _ _ _ _ _ _ _ _ _ _ _ _ _ _ _ _ _ _ _ _ _ _ _ _ _ _ _ _ _ _ _ _ _ _ _ _) => {
        55
    };
    (_ _ _ _ _ _ _ _ _ _ _ _ _ _ _ _ _ _ _ _ _ _ _ _ _ _ _ _ _ _ _ _ _ _ _ _ _ _ _ _ _ _ _ _ _ _ _ _ _ _ _ _ _ _ _ _) => {
        56
    };
    (_ _ _ _ _ _ _ _ _ _ _ _ _ _ _ _ _ _ _ _ _ _ _ _ _ _ _ _ _ _ _ _ _ _ _ _ _ _ _ _ _ _ _ _ _ _ _ _ _ _ _ _ _ _ _ _ _) => {
        57
    };
    (_ _ _ _ _ _ _ _ _ _ _ _ _ _ _ _ _ _ _ _ _ _ _ _ _ _ _ _ _ _ _ _ _ _ _ _ _ _ _ _ _ _ _ _ _ _ _ _ _ _ _ _ _ _ _ _ _ _) => {
        58
    };
    (_ _ _ _ _ _ _ _ _ _ _ _ _ _ _ _ _ _ _ _ _ _ _ _ _ _ _ _ _ _ _ _ _ _ _ _ _ _ _ _ _ _ _ _ _ _ _ _ _ _ _ _ _ _ _ _ _ _ _) => {
        59
    };
    (_ _ _ _ _ _ _ _ _ _ _ _ _ _ _ _ _ _ _ _ _ _ _ _ _ _ _ _ _ _ _ _ _ _ _ _ _ _ _ _ _ _ _ _ _ _ _ _ _ _ _ _ _ _ _ _ _ _ _ _) => {
        60
    };
    (_ _ _ _ _ _ _ _ _ _ _ _ _ _ _ _ _ _ _ _ _ _ _ _ _ _ _ _ _ _ _ _ _ _ _ _ _ _ _ _ _ _ _ _ _ _ _ _ _ _ _ _ _ _ _ _ _ _ _ _ _) => {
        61
    };
    (_ _ _ _ _ _ _ _ _ _ _ _ _ _ _ _ _ _ _ _ _ _ _ _ _ _ _ _ _ _ _ _ _ _ _ _ _ _ _ _ _ _ _ _ _ _ _ _ _ _ _ _ _ _ _ _ _ _ _ _ _ _) => {
        62
    };
    (_ _ _ _ _ _ _ _ _ _ _ _ _ _ _ _ _ _ _ _ _ _ _ _ _ _ _ _ _ _ _ _ _ _ _ _ _ _ _ _ _ _ _ _ _ _ _ _ _ _ _ _ _ _ _ _ _ _ _ _ _ _ _) => {
        63
    };
    (_ _ _ _ _ _ _ _ _ _ _ _ _ _ _ _ _ _ _ _ _ _ _ _ _ _ _ _ _ _ _ _ _ _ _ _ _ _ _ _ _ _ _ _ _ _ _ _ _ _ _ _ _ _ _ _ _ _ _ _ _ _ _ _) => {
        64
    };
}

#[macro_export]
#[doc(hidden)]
macro_rules! count_field {
    ($var:ident. ) => {
        $var.0
    };
    ($var:ident. _) => {
        $var.1
    };
    ($var:ident. _ _) => {
        $var.2
    };
    ($var:ident. _ _ _) => {
        $var.3
    };
    ($var:ident. _ _ _ _) => {
        $var.4
    };
    ($var:ident. _ _ _ _ _) => {
        $var.5
    };
    ($var:ident. _ _ _ _ _ _) => {
        $var.6
    };
    ($var:ident. _ _ _ _ _ _ _) => {
        $var.7
    };
    ($var:ident. _ _ _ _ _ _ _ _) => {
        $var.8
    };
    ($var:ident. _ _ _ _ _ _ _ _ _) => {
        $var.9
    };
    ($var:ident. _ _ _ _ _ _ _ _ _ _) => {
        $var.10
    };
    ($var:ident. _ _ _ _ _ _ _ _ _ _ _) => {
        $var.11
    };
    ($var:ident. _ _ _ _ _ _ _ _ _ _ _ _) => {
        $var.12
    };
    ($var:ident. _ _ _ _ _ _ _ _ _ _ _ _ _) => {
        $var.13
    };
    ($var:ident. _ _ _ _ _ _ _ _ _ _ _ _ _ _) => {
        $var.14
    };
    ($var:ident. _ _ _ _ _ _ _ _ _ _ _ _ _ _ _) => {
        $var.15
    };
    ($var:ident. _ _ _ _ _ _ _ _ _ _ _ _ _ _ _ _) => {
        $var.16
    };
    ($var:ident. _ _ _ _ _ _ _ _ _ _ _ _ _ _ _ _ _) => {
        $var.17
    };
    ($var:ident. _ _ _ _ _ _ _ _ _ _ _ _ _ _ _ _ _ _) => {
        $var.18
    };
    ($var:ident. _ _ _ _ _ _ _ _ _ _ _ _ _ _ _ _ _ _ _) => {
        $var.19
    };
    ($var:ident. _ _ _ _ _ _ _ _ _ _ _ _ _ _ _ _ _ _ _ _) => {
        $var.20
    };
    ($var:ident. _ _ _ _ _ _ _ _ _ _ _ _ _ _ _ _ _ _ _ _ _) => {
        $var.21
    };
    ($var:ident. _ _ _ _ _ _ _ _ _ _ _ _ _ _ _ _ _ _ _ _ _ _) => {
        $var.22
    };
    ($var:ident. _ _ _ _ _ _ _ _ _ _ _ _ _ _ _ _ _ _ _ _ _ _ _) => {
        $var.23
    };
    ($var:ident. _ _ _ _ _ _ _ _ _ _ _ _ _ _ _ _ _ _ _ _ _ _ _ _) => {
        $var.24
    };
    ($var:ident. _ _ _ _ _ _ _ _ _ _ _ _ _ _ _ _ _ _ _ _ _ _ _ _ _) => {
        $var.25
    };
    ($var:ident. _ _ _ _ _ _ _ _ _ _ _ _ _ _ _ _ _ _ _ _ _ _ _ _ _ _) => {
        $var.26
    };
    ($var:ident. _ _ _ _ _ _ _ _ _ _ _ _ _ _ _ _ _ _ _ _ _ _ _ _ _ _ _) => {
        $var.27
    };
    ($var:ident. _ _ _ _ _ _ _ _ _ _ _ _ _ _ _ _ _ _ _ _ _ _ _ _ _ _ _ _) => {
        $var.28
    };
    ($var:ident. _ _ _ _ _ _ _ _ _ _ _ _ _ _ _ _ _ _ _ _ _ _ _ _ _ _ _ _ _) => {
        $var.29
    };
    ($var:ident. _ _ _ _ _ _ _ _ _ _ _ _ _ _ _ _ _ _ _ _ _ _ _ _ _ _ _ _ _ _) => {
        $var.30
    };
    ($var:ident. _ _ _ _ _ _ _ _ _ _ _ _ _ _ _ _ _ _ _ _ _ _ _ _ _ _ _ _ _ _ _) => {
        $var.31
    };
    ($var:ident. _ _ _ _ _ _ _ _ _ _ _ _ _ _ _ _ _ _ _ _ _ _ _ _ _ _ _ _ _ _ _ _) => {
        $var.32
    };
    ($var:ident. _ _ _ _ _ _ _ _ _ _ _ _ _ _ _ _ _ _ _ _ _ _ _ _ _ _ _ _ _ _ _ _ _) => {
        $var.33
    };
    ($var:ident. _ _ _ _ _ _ _ _ _ _ _ _ _ _ _ _ _ _ _ _ _ _ _ _ _ _ _ _ _ _ _ _ _ _) => {
        $var.34
    };
    ($var:ident. _ _ _ _ _ _ _ _ _ _ _ _ _ _ _ _ _ _ _ _ _ _ _ _ _ _ _ _ _ _ _ _ _ _ _) => {
        $var.35
    };
    ($var:ident. _ _ _ _ _ _ _ _ _ _ _ _ _ _ _ _ _ _ _ _ _ _ _ _ _ _ _ _ _ _ _ _ _ _ _ _) => {
        $var.36
    };
    ($var:ident. _ _ _ _ _ _ _ _ _ _ _ _ _ _ _ _ _ _ _ _ _ _ _ _ _ _ _ _ _ _ _ _ _ _ _ _ _) => {
        $var.37
    };
    ($var:ident. _ _ _ _ _ _ _ _ _ _ _ _ _ _ _ _ _ _ _ _ _ _ _ _ _ _ _ _ _ _ _ _ _ _ _ _ _ _) => {
        $var.38
    };
    ($var:ident. _ _ _ _ _ _ _ _ _ _ _ _ _ _ _ _ _ _ _ _ _ _ _ _ _ _ _ _ _ _ _ _ _ _ _ _ _ _ _) => {
        $var.39
    };
    ($var:ident. _ _ _ _ _ _ _ _ _ _ _ _ _ _ _ _ _ _ _ _ _ _ _ _ _ _ _ _ _ _ _ _ _ _ _ _ _ _ _ _) => {
        $var.40
    };
    ($var:ident. _ _ _ _ _ _ _ _ _ _ _ _ _ _ _ _ _ _ _ _ _ _ _ _ _ _ _ _ _ _ _ _ _ _ _ _ _ _ _ _ _) => {
        $var.41
    };
    ($var:ident. _ _ _ _ _ _ _ _ _ _ _ _ _ _ _ _ _ _ _ _ _ _ _ _ _ _ _ _ _ _ _ _ _ _ _ _ _ _ _ _ _ _) => {
        $var.42
    };
    ($var:ident. _ _ _ _ _ _ _ _ _ _ _ _ _ _ _ _ _ _ _ _ _ _ _ _ _ _ _ _ _ _ _ _ _ _ _ _ _ _ _ _ _ _ _) => {
        $var.43
    };
    ($var:ident. _ _ _ _ _ _ _ _ _ _ _ _ _ _ _ _ _ _ _ _ _ _ _ _ _ _ _ _ _ _ _ _ _ _ _ _ _ _ _ _ _ _ _ _) => {
        $var.44
    };
    ($var:ident. _ _ _ _ _ _ _ _ _ _ _ _ _ _ _ _ _ _ _ _ _ _ _ _ _ _ _ _ _ _ _ _ _ _ _ _ _ _ _ _ _ _ _ _ _) => {
        $var.45
    };
    ($var:ident. _ _ _ _ _ _ _ _ _ _ _ _ _ _ _ _ _ _ _ _ _ _ _ _ _ _ _ _ _ _ _ _ _ _ _ _ _ _ _ _ _ _ _ _ _ _) => {
        $var.46
    };
    ($var:ident. _ _ _ _ _ _ _ _ _ _ _ _ _ _ _ _ _ _ _ _ _ _ _ _ _ _ _ _ _ _ _ _ _ _ _ _ _ _ _ _ _ _ _ _ _ _ _) => {
        $var.47
    };
    ($var:ident. _ _ _ _ _ _ _ _ _ _ _ _ _ _ _ _ _ _ _ _ _ _ _ _ _ _ _ _ _ _ _ _ _ _ _ _ _ _ _ _ _ _ _ _ _ _ _ _) => {
        $var.48
    };
    ($var:ident. _ _ _ _ _ _ _ _ _ _ _ _ _ _ _ _ _ _ _ _ _ _ _ _ _ _ _ _ _ _ _ _ _ _ _ _ _ _ _ _ _ _ _ _ _ _ _ _ _) => {
        $var.49
    };
    ($var:ident. _ _ _ _ _ _ _ _ _ _ _ _ _ _ _ _ _ _ _ _ _ _ _ _ _ _ _ _ _ _ _ _ _ _ _ _ _ _ _ _ _ _ _ _ _ _ _ _ _ _) => {
        $var.50
    };
    ($var:ident. _ _ _ _ _ _ _ _ _ _ _ _ _ _ _ _ _ _ _ _ _ _ _ _ _ _ _ _ _ _ _ _ _ _ _ _ _ _ _ _ _ _ _ _ _ _ _ _ _ _ _) => {
        $var.51
    };
    ($var:ident. _ _ _ _ _ _ _ _ _ _ _ _ _ _ _ _ _ _ _ _ _ _ _ _ _ _ _ _ _ _ _ _ _ _ _ _ _ _ _ _ _ _ _ _ _ _ _ _ _ _ _ _) => {
        $var.52
    };
    ($var:ident. _ _ _ _ _ _ _ _ _ _ _ _ _ _ _ _ _ _ _ _ _ _ _ _ _ _ _ _ _ _ _ _ _ _ _ _ _ _ _ _ _ _ _ _ _ _ _ _ _ _ _ _ _) => {
        $var.53
    };
    ($var:ident. _ _ _ _ _ _ _ _ _ _ _ _ _ _ _ _ _ _ _ _ _ _ _ _ _ _ _ _ _ _ _ _ _ _ _ _ _ _ _ _ _ _ _ _ _ _ _ _ _ _ _ _ _ _) => {
        $var.54
    };
    ($var:ident. _ _ _ _ _ _ _ _ _ _ _ _ _ _ _ _ _ _ _ _ _ _ _ _ _ _ _ _ _ _ _ _ _ _ _ _ _ _ _ _ _ _ _ _ _ _ _ _ _ _ _ _ _ _ _) => {
        $var.55
    };
    ($var:ident. _ _ _ _ _ _ _ _ _ _ _ _ _ _ _ _ _ _ _ _ _ _ _ _ _ _ _ _ _ _ _ _ _ _ _ _ _ _ _ _ _ _ _ _ _ _ _ _ _ _ _ _ _ _ _ _) => {
        $var.56
    };
    ($var:ident. _ _ _ _ _ _ _ _ _ _ _ _ _ _ _ _ _ _ _ _ _ _ _ _ _ _ _ _ _ _ _ _ _ _ _ _ _ _ _ _ _ _ _ _ _ _ _ _ _ _ _ _ _ _ _ _ _) => {
        $var.57
    };
    ($var:ident. _ _ _ _ _ _ _ _ _ _ _ _ _ _ _ _ _ _ _ _ _ _ _ _ _ _ _ _ _ _ _ _ _ _ _ _ _ _ _ _ _ _ _ _ _ _ _ _ _ _ _ _ _ _ _ _ _ _) => {
        $var.58
    };
    ($var:ident. _ _ _ _ _ _ _ _ _ _ _ _ _ _ _ _ _ _ _ _ _ _ _ _ _ _ _ _ _ _ _ _ _ _ _ _ _ _ _ _ _ _ _ _ _ _ _ _ _ _ _ _ _ _ _ _ _ _ _) => {
        $var.59
    };
    ($var:ident. _ _ _ _ _ _ _ _ _ _ _ _ _ _ _ _ _ _ _ _ _ _ _ _ _ _ _ _ _ _ _ _ _ _ _ _ _ _ _ _ _ _ _ _ _ _ _ _ _ _ _ _ _ _ _ _ _ _ _ _) => {
        $var.60
    };
    ($var:ident. _ _ _ _ _ _ _ _ _ _ _ _ _ _ _ _ _ _ _ _ _ _ _ _ _ _ _ _ _ _ _ _ _ _ _ _ _ _ _ _ _ _ _ _ _ _ _ _ _ _ _ _ _ _ _ _ _ _ _ _ _) => {
        $var.61
    };
    ($var:ident. _ _ _ _ _ _ _ _ _ _ _ _ _ _ _ _ _ _ _ _ _ _ _ _ _ _ _ _ _ _ _ _ _ _ _ _ _ _ _ _ _ _ _ _ _ _ _ _ _ _ _ _ _ _ _ _ _ _ _ _ _ _) => {
        $var.62
    };
    ($var:ident. _ _ _ _ _ _ _ _ _ _ _ _ _ _ _ _ _ _ _ _ _ _ _ _ _ _ _ _ _ _ _ _ _ _ _ _ _ _ _ _ _ _ _ _ _ _ _ _ _ _ _ _ _ _ _ _ _ _ _ _ _ _ _) => {
        $var.63
    };
    ($var:ident. _ _ _ _ _ _ _ _ _ _ _ _ _ _ _ _ _ _ _ _ _ _ _ _ _ _ _ _ _ _ _ _ _ _ _ _ _ _ _ _ _ _ _ _ _ _ _ _ _ _ _ _ _ _ _ _ _ _ _ _ _ _ _ _) => {
        $var.64
    };
}

#[macro_export]
#[doc(hidden)]
macro_rules! select_variant {
    ($($p:ident)::*, () $($t:tt)*) => {
        $($p)::*::_0 $($t)*
    };
    ($($p:ident)::*, (_) $($t:tt)*) => {
        $($p)::*::_1 $($t)*
    };
    ($($p:ident)::*, (_ _) $($t:tt)*) => {
        $($p)::*::_2 $($t)*
    };
    ($($p:ident)::*, (_ _ _) $($t:tt)*) => {
        $($p)::*::_3 $($t)*
    };
    ($($p:ident)::*, (_ _ _ _) $($t:tt)*) => {
        $($p)::*::_4 $($t)*
    };
    ($($p:ident)::*, (_ _ _ _ _) $($t:tt)*) => {
        $($p)::*::_5 $($t)*
    };
    ($($p:ident)::*, (_ _ _ _ _ _) $($t:tt)*) => {
        $($p)::*::_6 $($t)*
    };
    ($($p:ident)::*, (_ _ _ _ _ _ _) $($t:tt)*) => {
        $($p)::*::_7 $($t)*
    };
    ($($p:ident)::*, (_ _ _ _ _ _ _ _) $($t:tt)*) => {
        $($p)::*::_8 $($t)*
    };
    ($($p:ident)::*, (_ _ _ _ _ _ _ _ _) $($t:tt)*) => {
        $($p)::*::_9 $($t)*
    };
    ($($p:ident)::*, (_ _ _ _ _ _ _ _ _ _) $($t:tt)*) => {
        $($p)::*::_10 $($t)*
    };
    ($($p:ident)::*, (_ _ _ _ _ _ _ _ _ _ _) $($t:tt)*) => {
        $($p)::*::_11 $($t)*
    };
    ($($p:ident)::*, (_ _ _ _ _ _ _ _ _ _ _ _) $($t:tt)*) => {
        $($p)::*::_12 $($t)*
    };
    ($($p:ident)::*, (_ _ _ _ _ _ _ _ _ _ _ _ _) $($t:tt)*) => {
        $($p)::*::_13 $($t)*
    };
    ($($p:ident)::*, (_ _ _ _ _ _ _ _ _ _ _ _ _ _) $($t:tt)*) => {
        $($p)::*::_14 $($t)*
    };
    ($($p:ident)::*, (_ _ _ _ _ _ _ _ _ _ _ _ _ _ _) $($t:tt)*) => {
        $($p)::*::_15 $($t)*
    };
    ($($p:ident)::*, (_ _ _ _ _ _ _ _ _ _ _ _ _ _ _ _) $($t:tt)*) => {
        $($p)::*::_16 $($t)*
    };
    ($($p:ident)::*, (_ _ _ _ _ _ _ _ _ _ _ _ _ _ _ _ _) $($t:tt)*) => {
        $($p)::*::_17 $($t)*
    };
    ($($p:ident)::*, (_ _ _ _ _ _ _ _ _ _ _ _ _ _ _ _ _ _) $($t:tt)*) => {
        $($p)::*::_18 $($t)*
    };
    ($($p:ident)::*, (_ _ _ _ _ _ _ _ _ _ _ _ _ _ _ _ _ _ _) $($t:tt)*) => {
        $($p)::*::_19 $($t)*
    };
    ($($p:ident)::*, (_ _ _ _ _ _ _ _ _ _ _ _ _ _ _ _ _ _ _ _) $($t:tt)*) => {
        $($p)::*::_20 $($t)*
    };
    ($($p:ident)::*, (_ _ _ _ _ _ _ _ _ _ _ _ _ _ _ _ _ _ _ _ _) $($t:tt)*) => {
        $($p)::*::_21 $($t)*
    };
    ($($p:ident)::*, (_ _ _ _ _ _ _ _ _ _ _ _ _ _ _ _ _ _ _ _ _ _) $($t:tt)*) => {
        $($p)::*::_22 $($t)*
    };
    ($($p:ident)::*, (_ _ _ _ _ _ _ _ _ _ _ _ _ _ _ _ _ _ _ _ _ _ _) $($t:tt)*) => {
        $($p)::*::_23 $($t)*
    };
    ($($p:ident)::*, (_ _ _ _ _ _ _ _ _ _ _ _ _ _ _ _ _ _ _ _ _ _ _ _) $($t:tt)*) => {
        $($p)::*::_24 $($t)*
    };
    ($($p:ident)::*, (_ _ _ _ _ _ _ _ _ _ _ _ _ _ _ _ _ _ _ _ _ _ _ _ _) $($t:tt)*) => {
        $($p)::*::_25 $($t)*
    };
    ($($p:ident)::*, (_ _ _ _ _ _ _ _ _ _ _ _ _ _ _ _ _ _ _ _ _ _ _ _ _ _) $($t:tt)*) => {
        $($p)::*::_26 $($t)*
    };
    ($($p:ident)::*, (_ _ _ _ _ _ _ _ _ _ _ _ _ _ _ _ _ _ _ _ _ _ _ _ _ _ _) $($t:tt)*) => {
        $($p)::*::_27 $($t)*
    };
    ($($p:ident)::*, (_ _ _ _ _ _ _ _ _ _ _ _ _ _ _ _ _ _ _ _ _ _ _ _ _ _ _ _) $($t:tt)*) => {
        $($p)::*::_28 $($t)*
    };
    ($($p:ident)::*, (_ _ _ _ _ _ _ _ _ _ _ _ _ _ _ _ _ _ _ _ _ _ _ _ _ _ _ _ _) $($t:tt)*) => {
        $($p)::*::_29 $($t)*
    };
    ($($p:ident)::*, (_ _ _ _ _ _ _ _ _ _ _ _ _ _ _ _ _ _ _ _ _ _ _ _ _ _ _ _ _ _) $($t:tt)*) => {
        $($p)::*::_30 $($t)*
    };
    ($($p:ident)::*, (_ _ _ _ _ _ _ _ _ _ _ _ _ _ _ _ _ _ _ _ _ _ _ _ _ _ _ _ _ _ _) $($t:tt)*) => {
        $($p)::*::_31 $($t)*
    };
    ($($p:ident)::*, (_ _ _ _ _ _ _ _ _ _ _ _ _ _ _ _ _ _ _ _ _ _ _ _ _ _ _ _ _ _ _ _) $($t:tt)*) => {
        $($p)::*::_32 $($t)*
    };
    ($($p:ident)::*, (_ _ _ _ _ _ _ _ _ _ _ _ _ _ _ _ _ _ _ _ _ _ _ _ _ _ _ _ _ _ _ _ _) $($t:tt)*) => {
        $($p)::*::_33 $($t)*
    };
    ($($p:ident)::*, (_ _ _ _ _ _ _ _ _ _ _ _ _ _ _ _ _ _ _ _ _ _ _ _ _ _ _ _ _ _ _ _ _ _) $($t:tt)*) => {
        $($p)::*::_34 $($t)*
    };
    ($($p:ident)::*, (_ _ _ _ _ _ _ _ _ _ _ _ _ _ _ _ _ _ _ _ _ _ _ _ _ _ _ _ _ _ _ _ _ _ _) $($t:tt)*) => {
        $($p)::*::_35 $($t)*
    };
    ($($p:ident)::*, (_ _ _ _ _ _ _ _ _ _ _ _ _ _ _ _ _ _ _ _ _ _ _ _ _ _ _ _ _ _ _ _ _ _ _ _) $($t:tt)*) => {
        $($p)::*::_36 $($t)*
    };
    ($($p:ident)::*, (_ _ _ _ _ _ _ _ _ _ _ _ _ _ _ _ _ _ _ _ _ _ _ _ _ _ _ _ _ _ _ _ _ _ _ _ _) $($t:tt)*) => {
        $($p)::*::_37 $($t)*
    };
    ($($p:ident)::*, (_ _ _ _ _ _ _ _ _ _ _ _ _ _ _ _ _ _ _ _ _ _ _ _ _ _ _ _ _ _ _ _ _ _ _ _ _ _) $($t:tt)*) => {
        $($p)::*::_38 $($t)*
    };
    ($($p:ident)::*, (_ _ _ _ _ _ _ _ _ _ _ _ _ _ _ _ _ _ _ _ _ _ _ _ _ _ _ _ _ _ _ _ _ _ _ _ _ _ _) $($t:tt)*) => {
        $($p)::*::_39 $($t)*
    };
    ($($p:ident)::*, (_ _ _ _ _ _ _ _ _ _ _ _ _ _ _ _ _ _ _ _ _ _ _ _ _ _ _ _ _ _ _ _ _ _ _ _ _ _ _ _) $($t:tt)*) => {
        $($p)::*::_40 $($t)*
    };
    ($($p:ident)::*, (_ _ _ _ _ _ _ _ _ _ _ _ _ _ _ _ _ _ _ _ _ _ _ _ _ _ _ _ _ _ _ _ _ _ _ _ _ _ _ _ _) $($t:tt)*) => {
        $($p)::*::_41 $($t)*
    };
    ($($p:ident)::*, (_ _ _ _ _ _ _ _ _ _ _ _ _ _ _ _ _ _ _ _ _ _ _ _ _ _ _ _ _ _ _ _ _ _ _ _ _ _ _ _ _ _) $($t:tt)*) => {
        $($p)::*::_42 $($t)*
    };
    ($($p:ident)::*, (_ _ _ _ _ _ _ _ _ _ _ _ _ _ _ _ _ _ _ _ _ _ _ _ _ _ _ _ _ _ _ _ _ _ _ _ _ _ _ _ _ _ _) $($t:tt)*) => {
        $($p)::*::_43 $($t)*
    };
    ($($p:ident)::*, (_ _ _ _ _ _ _ _ _ _ _ _ _ _ _ _ _ _ _ _ _ _ _ _ _ _ _ _ _ _ _ _ _ _ _ _ _ _ _ _ _ _ _ _) $($t:tt)*) => {
        $($p)::*::_44 $($t)*
    };
    ($($p:ident)::*, (_ _ _ _ _ _ _ _ _ _ _ _ _ _ _ _ _ _ _ _ _ _ _ _ _ _ _ _ _ _ _ _ _ _ _ _ _ _ _ _ _ _ _ _ _) $($t:tt)*) => {
        $($p)::*::_45 $($t)*
    };
    ($($p:ident)::*, (_ _ _ _ _ _ _ _ _ _ _ _ _ _ _ _ _ _ _ _ _ _ _ _ _ _ _ _ _ _ _ _ _ _ _ _ _ _ _ _ _ _ _ _ _ _) $($t:tt)*) => {
        $($p)::*::_46 $($t)*
    };
    ($($p:ident)::*, (_ _ _ _ _ _ _ _ _ _ _ _ _ _ _ _ _ _ _ _ _ _ _ _ _ _ _ _ _ _ _ _ _ _ _ _ _ _ _ _ _ _ _ _ _ _ _) $($t:tt)*) => {
        $($p)::*::_47 $($t)*
    };
    ($($p:ident)::*, (_ _ _ _ _ _ _ _ _ _ _ _ _ _ _ _ _ _ _ _ _ _ _ _ _ _ _ _ _ _ _ _ _ _ _ _ _ _ _ _ _ _ _ _ _ _ _ _) $($t:tt)*) => {
        $($p)::*::_48 $($t)*
    };
    ($($p:ident)::*, (_ _ _ _ _ _ _ _ _ _ _ _ _ _ _ _ _ _ _ _ _ _ _ _ _ _ _ _ _ _ _ _ _ _ _ _ _ _ _ _ _ _ _ _ _ _ _ _ _) $($t:tt)*) => {
        $($p)::*::_49 $($t)*
    };
    ($($p:ident)::*, (_ _ _ _ _ _ _ _ _ _ _ _ _ _ _ _ _ _ _ _ _ _ _ _ _ _ _ _ _ _ _ _ _ _ _ _ _ _ _ _ _ _ _ _ _ _ _ _ _ _) $($t:tt)*) => {
        $($p)::*::_50 $($t)*
    };
    ($($p:ident)::*, (_ _ _ _ _ _ _ _ _ _ _ _ _ _ _ _ _ _ _ _ _ _ _ _ _ _ _ _ _ _ _ _ _ _ _ _ _ _ _ _ _ _ _ _ _ _ _ _ _ _ _) $($t:tt)*) => {
        $($p)::*::_51 $($t)*
    };
    ($($p:ident)::*, (_ _ _ _ _ _ _ _ _ _ _ _ _ _ _ _ _ _ _ _ _ _ _ _ _ _ _ _ _ _ _ _ _ _ _ _ _ _ _ _ _ _ _ _ _ _ _ _ _ _ _ _) $($t:tt)*) => {
        $($p)::*::_52 $($t)*
    };
    ($($p:ident)::*, (_ _ _ _ _ _ _ _ _ _ _ _ _ _ _ _ _ _ _ _ _ _ _ _ _ _ _ _ _ _ _ _ _ _ _ _ _ _ _ _ _ _ _ _ _ _ _ _ _ _ _ _ _) $($t:tt)*) => {
        $($p)::*::_53 $($t)*
    };
    ($($p:ident)::*, (_ _ _ _ _ _ _ _ _ _ _ _ _ _ _ _ _ _ _ _ _ _ _ _ _ _ _ _ _ _ _ _ _ _ _ _ _ _ _ _ _ _ _ _ _ _ _ _ _ _ _ _ _ _) $($t:tt)*) => {
        $($p)::*::_54 $($t)*
    };
    ($($p:ident)::*, (_ _ _ _ _ _ _ _ _ _ _ _ _ _ _ _ _ _ _ _ _ _ _ _ _ _ _ _ _ _ _ _ _ _ _ _ _ _ _ _ _ _ _ _ _ _ _ _ _ _ _ _ _ _ _) $($t:tt)*) => {
        $($p)::*::_55 $($t)*
    };
    ($($p:ident)::*, (_ _ _ _ _ _ _ _ _ _ _ _ _ _ _ _ _ _ _ _ _ _ _ _ _ _ _ _ _ _ _ _ _ _ _ _ _ _ _ _ _ _ _ _ _ _ _ _ _ _ _ _ _ _ _ _) $($t:tt)*) => {
        $($p)::*::_56 $($t)*
    };
    ($($p:ident)::*, (_ _ _ _ _ _ _ _ _ _ _ _ _ _ _ _ _ _ _ _ _ _ _ _ _ _ _ _ _ _ _ _ _ _ _ _ _ _ _ _ _ _ _ _ _ _ _ _ _ _ _ _ _ _ _ _ _) $($t:tt)*) => {
        $($p)::*::_57 $($t)*
    };
    ($($p:ident)::*, (_ _ _ _ _ _ _ _ _ _ _ _ _ _ _ _ _ _ _ _ _ _ _ _ _ _ _ _ _ _ _ _ _ _ _ _ _ _ _ _ _ _ _ _ _ _ _ _ _ _ _ _ _ _ _ _ _ _) $($t:tt)*) => {
        $($p)::*::_58 $($t)*
    };
    ($($p:ident)::*, (_ _ _ _ _ _ _ _ _ _ _ _ _ _ _ _ _ _ _ _ _ _ _ _ _ _ _ _ _ _ _ _ _ _ _ _ _ _ _ _ _ _ _ _ _ _ _ _ _ _ _ _ _ _ _ _ _ _ _) $($t:tt)*) => {
        $($p)::*::_59 $($t)*
    };
    ($($p:ident)::*, (_ _ _ _ _ _ _ _ _ _ _ _ _ _ _ _ _ _ _ _ _ _ _ _ _ _ _ _ _ _ _ _ _ _ _ _ _ _ _ _ _ _ _ _ _ _ _ _ _ _ _ _ _ _ _ _ _ _ _ _) $($t:tt)*) => {
        $($p)::*::_60 $($t)*
    };
    ($($p:ident)::*, (_ _ _ _ _ _ _ _ _ _ _ _ _ _ _ _ _ _ _ _ _ _ _ _ _ _ _ _ _ _ _ _ _ _ _ _ _ _ _ _ _ _ _ _ _ _ _ _ _ _ _ _ _ _ _ _ _ _ _ _ _) $($t:tt)*) => {
        $($p)::*::_61 $($t)*
    };
    ($($p:ident)::*, (_ _ _ _ _ _ _ _ _ _ _ _ _ _ _ _ _ _ _ _ _ _ _ _ _ _ _ _ _ _ _ _ _ _ _ _ _ _ _ _ _ _ _ _ _ _ _ _ _ _ _ _ _ _ _ _ _ _ _ _ _ _) $($t:tt)*) => {
        $($p)::*::_62 $($t)*
    };
    ($($p:ident)::*, (_ _ _ _ _ _ _ _ _ _ _ _ _ _ _ _ _ _ _ _ _ _ _ _ _ _ _ _ _ _ _ _ _ _ _ _ _ _ _ _ _ _ _ _ _ _ _ _ _ _ _ _ _ _ _ _ _ _ _ _ _ _ _) $($t:tt)*) => {
        $($p)::*::_63 $($t)*
    };
}
