#[macro_use]
mod select;

#[macro_export]
macro_rules! task_local {
    () => {};
    ($(#[$attr:meta])* $vis:vis static $name:ident: $t:ty; $($rest:tt)*) => {
        $(#[$attr])* $vis static $name: $crate::task::LocalKey<$t> = $crate::task::LocalKey::new();
        $crate::task_local!($($rest)*);
    };
    ($(#[$attr:meta])* $vis:vis static $name:ident: $t:ty) => {
        $(#[$attr])* $vis static $name: $crate::task::LocalKey<$t> = $crate::task::LocalKey::new();
    };
}

/// `tokio::pin!` (same expansion as tokio 1.x)
#[macro_export]
macro_rules! pin {
    ($($x:ident),*) => { $(
        let mut $x = $x;
        #[allow(unused_mut)]
        let mut $x = unsafe { $crate::macros::support::Pin::new_unchecked(&mut $x) };
    )* };
    ($(let $x:ident = $init:expr;)*) => {
        $( let $x = $init; $crate::pin!($x); )*
    };
}

#[doc(hidden)]
pub mod support {
    pub use std::future::poll_fn;
    pub use std::future::{Future, IntoFuture};
    pub use std::pin::Pin;
    pub use std::task::{Context, Poll};
    /// A non-`biased` `select!` starts polling at a random branch: under Kani that start is a
    /// solver variable; natively it is taken from `RNG_NEXT` (set by replay tests).
    pub static mut RNG_NEXT: u32 = 0;
    pub fn thread_rng_n(n: u32) -> u32 {
        #[cfg(kani)]
        {
            let x: u32 = kani::any();
            kani::assume(x < n);
            x
        }
        #[cfg(not(kani))]
        {
            unsafe { RNG_NEXT % n }
        }
    }
    /// cooperative budgeting only adds spurious `Pending`s; the harness scheduler already
    /// covers arbitrary extra polls
    #[inline]
    pub fn poll_budget_available(_: &mut Context<'_>) -> Poll<()> {
        Poll::Ready(())
    }
}
