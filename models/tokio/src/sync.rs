//! Verification model of `tokio::sync::{mpsc, oneshot}` (the subset rsactor uses, plus a margin).
//!
//! Design rules (see DESIGN.md §3.4): handles carry only a small integer id; every scalar of
//! a channel lives in a typed `static mut` table (constant-propagated by CBMC); only the
//! generic message slots live in one leaked heap cell per channel. Nothing is reference
//! counted, nothing is freed.
//!
//! Semantics follow tokio 1.49 (`sync/mpsc/bounded.rs`, `chan.rs`, `batch_semaphore.rs`,
//! `sync/oneshot.rs`):
//!  * bounded mpsc = `cap` permits + FIFO wait list; a released permit goes to the head
//!    waiter, never back to the pool while someone waits; the granted sender pushes its value
//!    when it is next polled; dropping a pending/granted `send` future withdraws it and hands
//!    its permit on (cancel safety);
//!  * `close()` / dropping the Receiver makes every unfinished and later `send` fail and
//!    return the value; buffered values stay receivable after `close()`, are dropped by
//!    Receiver drop;
//!  * `recv` yields buffered values first, then `None` once all Senders are gone or the
//!    channel is closed and every permit is back;
//!  * `WeakSender` never counts as a sender; `upgrade` fails iff the strong count is 0.

pub mod mpsc {
    use std::future::Future;
    use std::marker::PhantomData;
    use std::pin::Pin;
    use std::task::{Context, Poll};

    /// model bounds (exceeding one is an assertion failure, never a silent truncation)
    #[cfg(kani)]
    pub const MAXCAP: usize = 3;
    #[cfg(kani)]
    pub const MAXWAIT: usize = 3;
    // native runs (replay / cross-validation of the MIR interpreter) are not bounded by CBMC
    #[cfg(not(kani))]
    pub const MAXCAP: usize = 64;
    #[cfg(not(kani))]
    pub const MAXWAIT: usize = 16;
    #[cfg(kani)]
    pub const MAXCH: usize = 6;
    #[cfg(not(kani))]
    pub const MAXCH: usize = 32;

    pub mod error {
        #[derive(Debug, PartialEq, Eq)]
        pub struct SendError<T>(pub T);
        #[derive(Debug, PartialEq, Eq)]
        pub enum TrySendError<T> {
            Full(T),
            Closed(T),
        }
        #[derive(Debug, PartialEq, Eq)]
        pub enum TryRecvError {
            Empty,
            Disconnected,
        }
        #[derive(Debug, PartialEq, Eq)]
        pub enum SendTimeoutError<T> {
            Timeout(T),
            Closed(T),
        }
    }
    use error::*;

    #[derive(Clone, Copy)]
    pub struct Ctr {
        pub used: bool,
        pub cap: usize,
        /// permits in the pool
        pub free: usize,
        /// buffered values
        pub len: usize,
        pub closed: bool,
        pub rx_alive: bool,
        pub tx_count: usize,
        pub next_ticket: u32,
        pub waitq: [u32; MAXWAIT],
        pub wlen: usize,
        pub granted: [u32; MAXWAIT],
        pub glen: usize,
        /// address of the leaked `Slots<T>` cell
        pub slots: usize,
        /// statistics for monitors
        pub pushed: usize,
        pub popped: usize,
        pub max_len: usize,
    }
    const CTR0: Ctr = Ctr {
        used: false,
        cap: 0,
        free: 0,
        len: 0,
        closed: false,
        rx_alive: false,
        tx_count: 0,
        next_ticket: 1,
        waitq: [0; MAXWAIT],
        wlen: 0,
        granted: [0; MAXWAIT],
        glen: 0,
        slots: 0,
        pushed: 0,
        popped: 0,
        max_len: 0,
    };
    pub static mut CH: [Ctr; MAXCH] = [CTR0; MAXCH];
    pub static mut NCH: usize = 0;

    #[inline(always)]
    #[allow(static_mut_refs)]
    pub fn ctr(id: u8) -> &'static mut Ctr {
        unsafe { &mut CH[id as usize] }
    }
    /// native runs: start from a clean slate
    pub fn model_reset() {
        unsafe {
            CH = [CTR0; MAXCH];
            NCH = 0;
        }
    }
    /// number of channels created so far (harness introspection)
    pub fn channels_created() -> usize {
        unsafe { NCH }
    }

    #[cfg(kani)]
    struct Slots<T> {
        s0: Option<T>,
        s1: Option<T>,
        s2: Option<T>,
    }
    #[cfg(not(kani))]
    struct Slots<T> {
        q: std::collections::VecDeque<T>,
    }
    #[cfg(kani)]
    fn new_slots<T>() -> Slots<T> {
        Slots { s0: None, s1: None, s2: None }
    }
    #[cfg(not(kani))]
    fn new_slots<T>() -> Slots<T> {
        Slots { q: std::collections::VecDeque::new() }
    }
    #[allow(clippy::mut_from_ref)]
    fn slots<'a, T>(id: u8) -> &'a mut Slots<T> {
        unsafe { &mut *(ctr(id).slots as *mut Slots<T>) }
    }
    fn push<T>(id: u8, v: T) {
        let c = ctr(id);
        let s = slots::<T>(id);
        assert!(c.len < MAXCAP, "model: push beyond MAXCAP");
        #[cfg(kani)]
        match c.len {
            0 => s.s0 = Some(v),
            1 => s.s1 = Some(v),
            _ => s.s2 = Some(v),
        }
        #[cfg(not(kani))]
        s.q.push_back(v);
        c.len += 1;
        c.pushed += 1;
        if c.len > c.max_len {
            c.max_len = c.len;
        }
    }
    fn pop<T>(id: u8) -> Option<T> {
        let c = ctr(id);
        if c.len == 0 {
            return None;
        }
        let s = slots::<T>(id);
        #[cfg(kani)]
        let v = {
            let v = s.s0.take();
            if c.len > 1 {
                s.s0 = s.s1.take();
            }
            if c.len > 2 {
                s.s1 = s.s2.take();
            }
            v
        };
        #[cfg(not(kani))]
        let v = s.q.pop_front();
        c.len -= 1;
        c.popped += 1;
        v
    }
    impl Ctr {
        /// a permit comes back: head waiter gets it, else the pool
        fn release_one(&mut self) {
            if self.wlen > 0 {
                let t = self.waitq[0];
                let mut k = 1;
                while k < MAXWAIT {
                    if k < self.wlen {
                        self.waitq[k - 1] = self.waitq[k];
                    }
                    k += 1;
                }
                self.wlen -= 1;
                self.granted[self.glen] = t;
                self.glen += 1;
            } else {
                self.free += 1;
            }
        }
        fn take_grant(&mut self, t: u32) -> bool {
            let mut k = 0;
            let mut found = false;
            while k < MAXWAIT {
                if !found && k < self.glen && self.granted[k] == t {
                    found = true;
                }
                if found && k + 1 < MAXWAIT {
                    self.granted[k] = self.granted[k + 1];
                }
                k += 1;
            }
            if found {
                self.glen -= 1;
            }
            found
        }
        fn unqueue(&mut self, t: u32) -> bool {
            let mut k = 0;
            let mut found = false;
            while k < MAXWAIT {
                if !found && k < self.wlen && self.waitq[k] == t {
                    found = true;
                }
                if found && k + 1 < MAXWAIT {
                    self.waitq[k] = self.waitq[k + 1];
                }
                k += 1;
            }
            if found {
                self.wlen -= 1;
            }
            found
        }
        /// withdraw ticket `t` wherever it is; a granted permit is handed on
        fn withdraw(&mut self, t: u32) {
            if !self.unqueue(t) && self.take_grant(t) {
                self.release_one();
            }
        }
        /// tokio `Semaphore::is_idle`: every permit is back in the pool (a permit that was
        /// assigned to a waiter which has not been polled or dropped yet is *not* back)
        fn idle(&self) -> bool {
            self.free == self.cap
        }
        /// tokio `Semaphore::close`: set the flag and drain the wait queue (assigned permits
        /// stay assigned until their owner is polled or dropped)
        fn close(&mut self) {
            self.closed = true;
            self.wlen = 0;
        }
    }

    pub struct Sender<T> {
        id: u8,
        _p: PhantomData<fn(T) -> T>,
    }
    pub struct WeakSender<T> {
        id: u8,
        _p: PhantomData<fn(T) -> T>,
    }
    pub struct Receiver<T> {
        id: u8,
        _p: PhantomData<fn(T) -> T>,
    }
    impl<T> std::fmt::Debug for Sender<T> {
        fn fmt(&self, f: &mut std::fmt::Formatter<'_>) -> std::fmt::Result {
            f.write_str("Sender")
        }
    }
    impl<T> std::fmt::Debug for WeakSender<T> {
        fn fmt(&self, f: &mut std::fmt::Formatter<'_>) -> std::fmt::Result {
            f.write_str("WeakSender")
        }
    }
    impl<T> std::fmt::Debug for Receiver<T> {
        fn fmt(&self, f: &mut std::fmt::Formatter<'_>) -> std::fmt::Result {
            f.write_str("Receiver")
        }
    }

    pub fn channel<T>(buffer: usize) -> (Sender<T>, Receiver<T>) {
        assert!(buffer > 0, "mpsc bounded channel requires buffer > 0");
        // capacities above MAXCAP are accepted; the bound is on *occupancy* (checked in `push`)
        let id = unsafe {
            let id = NCH;
            assert!(id < MAXCH, "model bound: channels <= MAXCH");
            NCH += 1;
            id as u8
        };
        let cell: *mut Slots<T> = Box::into_raw(Box::new(new_slots::<T>()));
        let c = ctr(id);
        *c = CTR0;
        c.used = true;
        c.cap = buffer;
        c.free = buffer;
        c.rx_alive = true;
        c.tx_count = 1;
        c.slots = cell as usize;
        (Sender { id, _p: PhantomData }, Receiver { id, _p: PhantomData })
    }

    impl<T> Clone for Sender<T> {
        fn clone(&self) -> Self {
            ctr(self.id).tx_count += 1;
            Sender { id: self.id, _p: PhantomData }
        }
    }
    impl<T> Drop for Sender<T> {
        fn drop(&mut self) {
            ctr(self.id).tx_count -= 1;
        }
    }
    impl<T> Clone for WeakSender<T> {
        fn clone(&self) -> Self {
            WeakSender { id: self.id, _p: PhantomData }
        }
    }
    impl<T> WeakSender<T> {
        pub fn upgrade(&self) -> Option<Sender<T>> {
            let c = ctr(self.id);
            if c.tx_count == 0 {
                None
            } else {
                c.tx_count += 1;
                Some(Sender { id: self.id, _p: PhantomData })
            }
        }
        pub fn strong_count(&self) -> usize {
            ctr(self.id).tx_count
        }
        pub fn model_id(&self) -> u8 {
            self.id
        }
    }
    impl<T> Sender<T> {
        pub fn model_id(&self) -> u8 {
            self.id
        }
        pub fn downgrade(&self) -> WeakSender<T> {
            WeakSender { id: self.id, _p: PhantomData }
        }
        pub fn is_closed(&self) -> bool {
            ctr(self.id).closed
        }
        pub fn strong_count(&self) -> usize {
            ctr(self.id).tx_count
        }
        pub fn same_channel(&self, other: &Self) -> bool {
            self.id == other.id
        }
        pub fn capacity(&self) -> usize {
            ctr(self.id).free
        }
        pub fn max_capacity(&self) -> usize {
            ctr(self.id).cap
        }
        pub fn try_send(&self, v: T) -> Result<(), TrySendError<T>> {
            let c = ctr(self.id);
            if c.closed {
                return Err(TrySendError::Closed(v));
            }
            if c.free == 0 {
                return Err(TrySendError::Full(v));
            }
            c.free -= 1;
            push(self.id, v);
            Ok(())
        }
        pub fn send(&self, v: T) -> SendFut<'_, T> {
            SendFut { tx: self, value: Some(v), ticket: 0 }
        }
        /// tokio: `timeout(d, self.reserve())` then `permit.send(value)`
        pub fn send_timeout(&self, v: T, timeout: std::time::Duration) -> SendTimeoutFut<'_, T> {
            SendTimeoutFut { inner: SendFut { tx: self, value: Some(v), ticket: 0 }, deadline: crate::time::deadline_after(timeout) }
        }
        pub fn reserve(&self) -> ReserveFut<'_, T> {
            ReserveFut { tx: self, ticket: 0, done: false }
        }
        /// `reserve_many(n)`: n permits, handed out through an iterator; unused ones are released
        /// when the iterator is dropped.  (Native model: acquired one after the other.)
        pub async fn reserve_many(&self, n: usize) -> Result<PermitIterator<'_, T>, SendError<()>> {
            let mut got = 0;
            while got < n {
                match self.reserve().await {
                    Ok(p) => {
                        std::mem::forget(p);
                        got += 1;
                    }
                    Err(e) => {
                        for _ in 0..got {
                            ctr(self.id).release_one();
                        }
                        return Err(e);
                    }
                }
            }
            Ok(PermitIterator { tx: self, n })
        }
        pub fn try_reserve(&self) -> Result<Permit<'_, T>, TrySendError<()>> {
            let c = ctr(self.id);
            if c.closed {
                return Err(TrySendError::Closed(()));
            }
            if c.free == 0 {
                return Err(TrySendError::Full(()));
            }
            c.free -= 1;
            Ok(Permit { tx: self, used: false })
        }
        pub async fn closed(&self) {
            ClosedFut { id: self.id }.await
        }
        /// `blocking_send` = park the calling thread until `send` completes.  The model has no
        /// threads: between two attempts the environment (installed by the harness) takes one
        /// step; a `false` return means "nothing will ever change" and is a modelling dead end.
        pub fn blocking_send(&self, v: T) -> Result<(), SendError<T>> {
            let mut fut = self.send(v);
            let w = crate::exec::noop_waker();
            let mut cx = Context::from_waker(&w);
            let mut n = 0;
            loop {
                if let Poll::Ready(r) = Pin::new(&mut fut).poll(&mut cx) {
                    return r;
                }
                crate::exec::blocking_env_step(n);
                n += 1;
            }
        }
    }
    struct ClosedFut {
        id: u8,
    }
    impl Future for ClosedFut {
        type Output = ();
        fn poll(self: Pin<&mut Self>, _cx: &mut Context<'_>) -> Poll<()> {
            if ctr(self.id).closed {
                Poll::Ready(())
            } else {
                Poll::Pending
            }
        }
    }
    pub struct SendFut<'a, T> {
        tx: &'a Sender<T>,
        value: Option<T>,
        ticket: u32,
    }
    impl<T> Unpin for SendFut<'_, T> {}
    impl<T> Future for SendFut<'_, T> {
        type Output = Result<(), SendError<T>>;
        fn poll(mut self: Pin<&mut Self>, _cx: &mut Context<'_>) -> Poll<Self::Output> {
            let me = &mut *self;
            let id = me.tx.id;
            let c = ctr(id);
            if c.closed {
                if me.ticket != 0 {
                    c.withdraw(me.ticket);
                    me.ticket = 0;
                }
                return Poll::Ready(Err(SendError(me.value.take().expect("polled after completion"))));
            }
            if me.ticket == 0 {
                // tokio: a new acquire succeeds immediately only if a permit is in the pool
                // (permits released while someone waits go to the waiters, so pool>0 implies
                // no waiter is entitled to it)
                if c.free > 0 {
                    c.free -= 1;
                    push(id, me.value.take().expect("polled after completion"));
                    return Poll::Ready(Ok(()));
                }
                assert!(c.wlen < MAXWAIT, "model bound: waiters <= MAXWAIT");
                me.ticket = c.next_ticket;
                c.next_ticket += 1;
                c.waitq[c.wlen] = me.ticket;
                c.wlen += 1;
                return Poll::Pending;
            }
            if c.take_grant(me.ticket) {
                me.ticket = 0;
                push(id, me.value.take().expect("polled after completion"));
                return Poll::Ready(Ok(()));
            }
            Poll::Pending
        }
    }
    pub struct SendTimeoutFut<'a, T> {
        inner: SendFut<'a, T>,
        deadline: u64,
    }
    impl<T> Unpin for SendTimeoutFut<'_, T> {}
    impl<T> Future for SendTimeoutFut<'_, T> {
        type Output = Result<(), SendTimeoutError<T>>;
        fn poll(mut self: Pin<&mut Self>, cx: &mut Context<'_>) -> Poll<Self::Output> {
            let me = &mut *self;
            match Pin::new(&mut me.inner).poll(cx) {
                Poll::Ready(Ok(())) => Poll::Ready(Ok(())),
                Poll::Ready(Err(SendError(v))) => Poll::Ready(Err(SendTimeoutError::Closed(v))),
                Poll::Pending => {
                    if crate::time::now_ns() >= me.deadline {
                        // withdraw (the permit request is dropped) and hand the value back
                        if me.inner.ticket != 0 {
                            ctr(me.inner.tx.id).withdraw(me.inner.ticket);
                            me.inner.ticket = 0;
                        }
                        Poll::Ready(Err(SendTimeoutError::Timeout(me.inner.value.take().expect("polled after completion"))))
                    } else {
                        Poll::Pending
                    }
                }
            }
        }
    }
    /// a reserved slot: `send` cannot fail; dropping it unused returns the permit
    pub struct Permit<'a, T> {
        tx: &'a Sender<T>,
        used: bool,
    }
    impl<T> Permit<'_, T> {
        pub fn send(mut self, v: T) {
            self.used = true;
            push(self.tx.id, v);
        }
    }
    impl<T> Drop for Permit<'_, T> {
        fn drop(&mut self) {
            if !self.used {
                ctr(self.tx.id).release_one();
            }
        }
    }
    pub struct PermitIterator<'a, T> {
        tx: &'a Sender<T>,
        n: usize,
    }
    impl<'a, T> Iterator for PermitIterator<'a, T> {
        type Item = Permit<'a, T>;
        fn next(&mut self) -> Option<Permit<'a, T>> {
            if self.n == 0 {
                return None;
            }
            self.n -= 1;
            Some(Permit { tx: self.tx, used: false })
        }
    }
    impl<T> Drop for PermitIterator<'_, T> {
        fn drop(&mut self) {
            for _ in 0..self.n {
                ctr(self.tx.id).release_one();
            }
            self.n = 0;
        }
    }
    pub struct ReserveFut<'a, T> {
        tx: &'a Sender<T>,
        ticket: u32,
        done: bool,
    }
    impl<T> Unpin for ReserveFut<'_, T> {}
    impl<'a, T> Future for ReserveFut<'a, T> {
        type Output = Result<Permit<'a, T>, SendError<()>>;
        fn poll(mut self: Pin<&mut Self>, _cx: &mut Context<'_>) -> Poll<Self::Output> {
            let me = &mut *self;
            let c = ctr(me.tx.id);
            if c.closed {
                if me.ticket != 0 {
                    c.withdraw(me.ticket);
                    me.ticket = 0;
                }
                return Poll::Ready(Err(SendError(())));
            }
            if me.ticket == 0 {
                if c.free > 0 {
                    c.free -= 1;
                    me.done = true;
                    return Poll::Ready(Ok(Permit { tx: me.tx, used: false }));
                }
                assert!(c.wlen < MAXWAIT, "model bound: waiters <= MAXWAIT");
                me.ticket = c.next_ticket;
                c.next_ticket += 1;
                c.waitq[c.wlen] = me.ticket;
                c.wlen += 1;
                return Poll::Pending;
            }
            if c.take_grant(me.ticket) {
                me.ticket = 0;
                me.done = true;
                return Poll::Ready(Ok(Permit { tx: me.tx, used: false }));
            }
            Poll::Pending
        }
    }
    impl<T> Drop for ReserveFut<'_, T> {
        fn drop(&mut self) {
            if self.ticket != 0 {
                ctr(self.tx.id).withdraw(self.ticket);
            }
        }
    }
    impl<T> Drop for SendFut<'_, T> {
        fn drop(&mut self) {
            if self.ticket != 0 {
                ctr(self.tx.id).withdraw(self.ticket);
            }
        }
    }

    impl<T> Receiver<T> {
        pub fn model_id(&self) -> u8 {
            self.id
        }
        pub fn close(&mut self) {
            ctr(self.id).close();
        }
        pub fn is_closed(&self) -> bool {
            let c = ctr(self.id);
            c.closed || c.tx_count == 0
        }
        pub fn is_empty(&self) -> bool {
            ctr(self.id).len == 0
        }
        pub fn len(&self) -> usize {
            ctr(self.id).len
        }
        pub fn capacity(&self) -> usize {
            ctr(self.id).free
        }
        pub fn max_capacity(&self) -> usize {
            ctr(self.id).cap
        }
        pub fn sender_strong_count(&self) -> usize {
            ctr(self.id).tx_count
        }
        pub fn recv(&mut self) -> RecvFut<'_, T> {
            RecvFut { rx: self }
        }
        /// up to `limit` messages in one go (waits for the first one)
        pub async fn recv_many(&mut self, buf: &mut Vec<T>, limit: usize) -> usize {
            if limit == 0 {
                return 0;
            }
            match self.recv().await {
                None => 0,
                Some(v) => {
                    buf.push(v);
                    let mut n = 1;
                    while n < limit {
                        match self.try_recv() {
                            Ok(v) => {
                                buf.push(v);
                                n += 1;
                            }
                            Err(_) => break,
                        }
                    }
                    n
                }
            }
        }
        pub fn poll_recv(&mut self, _cx: &mut Context<'_>) -> Poll<Option<T>> {
            self.poll_recv_inner()
        }
        pub fn try_recv(&mut self) -> Result<T, TryRecvError> {
            match self.poll_recv_inner() {
                Poll::Ready(Some(v)) => Ok(v),
                Poll::Ready(None) => Err(TryRecvError::Disconnected),
                Poll::Pending => Err(TryRecvError::Empty),
            }
        }
        fn poll_recv_inner(&mut self) -> Poll<Option<T>> {
            if let Some(v) = pop::<T>(self.id) {
                ctr(self.id).release_one();
                return Poll::Ready(Some(v));
            }
            let c = ctr(self.id);
            if c.tx_count == 0 {
                return Poll::Ready(None);
            }
            if c.closed && c.idle() {
                return Poll::Ready(None);
            }
            Poll::Pending
        }
        pub fn blocking_recv(&mut self) -> Option<T> {
            let mut n = 0;
            loop {
                if let Poll::Ready(r) = self.poll_recv_inner() {
                    return r;
                }
                crate::exec::blocking_env_step(n);
                n += 1;
            }
        }
    }
    pub struct RecvFut<'a, T> {
        rx: &'a mut Receiver<T>,
    }
    impl<T> Unpin for RecvFut<'_, T> {}
    impl<T> Future for RecvFut<'_, T> {
        type Output = Option<T>;
        fn poll(mut self: Pin<&mut Self>, _cx: &mut Context<'_>) -> Poll<Self::Output> {
            self.rx.poll_recv_inner()
        }
    }
    impl<T> Drop for Receiver<T> {
        fn drop(&mut self) {
            let c = ctr(self.id);
            c.close();
            c.rx_alive = false;
            // tokio drains and drops every buffered value on Receiver drop
            let mut k = 0;
            while k < MAXCAP {
                if let Some(v) = pop::<T>(self.id) {
                    ctr(self.id).release_one();
                    drop(v);
                }
                k += 1;
            }
        }
    }
}

/// `tokio::sync::Semaphore` (fair: waiters are served in arrival order; `close()` fails them).
/// Native / MIR-dump model; its methods are python builtins in the interpreter.
pub struct Semaphore {
    st: std::sync::Mutex<SemState>,
}
struct SemState {
    permits: usize,
    closed: bool,
    next_ticket: u64,
    queue: std::collections::VecDeque<(u64, usize)>,
}
impl std::fmt::Debug for Semaphore {
    fn fmt(&self, f: &mut std::fmt::Formatter<'_>) -> std::fmt::Result {
        f.write_str("Semaphore")
    }
}
#[derive(Debug)]
pub struct AcquireError(());
impl std::fmt::Display for AcquireError {
    fn fmt(&self, f: &mut std::fmt::Formatter<'_>) -> std::fmt::Result {
        f.write_str("semaphore closed")
    }
}
impl std::error::Error for AcquireError {}
#[derive(Debug, PartialEq, Eq)]
pub enum TryAcquireError {
    Closed,
    NoPermits,
}
#[derive(Debug)]
pub struct SemaphorePermit<'a> {
    sem: &'a Semaphore,
    n: usize,
}
impl SemaphorePermit<'_> {
    pub fn forget(mut self) {
        self.n = 0;
    }
}
impl Drop for SemaphorePermit<'_> {
    fn drop(&mut self) {
        if self.n > 0 {
            self.sem.add_permits(self.n);
        }
    }
}
#[derive(Debug)]
pub struct OwnedSemaphorePermit {
    sem: std::sync::Arc<Semaphore>,
    n: usize,
}
impl OwnedSemaphorePermit {
    pub fn forget(mut self) {
        self.n = 0;
    }
}
impl Drop for OwnedSemaphorePermit {
    fn drop(&mut self) {
        if self.n > 0 {
            self.sem.add_permits(self.n);
        }
    }
}
pub struct Acquire<'a> {
    sem: &'a Semaphore,
    n: usize,
    ticket: Option<u64>,
}
impl<'a> std::future::Future for Acquire<'a> {
    type Output = Result<SemaphorePermit<'a>, AcquireError>;
    fn poll(mut self: std::pin::Pin<&mut Self>, _cx: &mut std::task::Context<'_>) -> std::task::Poll<Self::Output> {
        let sem = self.sem;
        let n = self.n;
        let mut st = sem.st.lock().unwrap();
        if st.closed {
            return std::task::Poll::Ready(Err(AcquireError(())));
        }
        let t = match self.ticket {
            Some(t) => t,
            None => {
                let t = st.next_ticket;
                st.next_ticket += 1;
                st.queue.push_back((t, n));
                drop(st);
                self.ticket = Some(t);
                st = sem.st.lock().unwrap();
                t
            }
        };
        if st.queue.front().map(|x| x.0) == Some(t) && st.permits >= n {
            st.permits -= n;
            st.queue.pop_front();
            drop(st);
            self.ticket = None;
            return std::task::Poll::Ready(Ok(SemaphorePermit { sem, n }));
        }
        std::task::Poll::Pending
    }
}
impl Drop for Acquire<'_> {
    fn drop(&mut self) {
        if let Some(t) = self.ticket {
            self.sem.st.lock().unwrap().queue.retain(|x| x.0 != t);
        }
    }
}
impl Semaphore {
    pub const MAX_PERMITS: usize = usize::MAX >> 3;
    pub fn new(permits: usize) -> Self {
        Semaphore { st: std::sync::Mutex::new(SemState { permits, closed: false, next_ticket: 0, queue: Default::default() }) }
    }
    pub fn available_permits(&self) -> usize {
        self.st.lock().unwrap().permits
    }
    pub fn add_permits(&self, n: usize) {
        self.st.lock().unwrap().permits += n;
    }
    pub fn close(&self) {
        self.st.lock().unwrap().closed = true;
    }
    pub fn is_closed(&self) -> bool {
        self.st.lock().unwrap().closed
    }
    pub fn acquire(&self) -> Acquire<'_> {
        Acquire { sem: self, n: 1, ticket: None }
    }
    pub fn acquire_many(&self, n: u32) -> Acquire<'_> {
        Acquire { sem: self, n: n as usize, ticket: None }
    }
    pub fn try_acquire(&self) -> Result<SemaphorePermit<'_>, TryAcquireError> {
        let mut st = self.st.lock().unwrap();
        if st.closed {
            return Err(TryAcquireError::Closed);
        }
        if st.queue.is_empty() && st.permits >= 1 {
            st.permits -= 1;
            return Ok(SemaphorePermit { sem: self, n: 1 });
        }
        Err(TryAcquireError::NoPermits)
    }
    pub async fn acquire_owned(self: std::sync::Arc<Self>) -> Result<OwnedSemaphorePermit, AcquireError> {
        let p = self.acquire().await?;
        let n = p.n;
        p.forget();
        Ok(OwnedSemaphorePermit { sem: self.clone(), n })
    }
}

pub mod oneshot {
    use std::future::Future;
    use std::marker::PhantomData;
    use std::pin::Pin;
    use std::task::{Context, Poll};

    #[cfg(kani)]
    pub const MAXOS: usize = 6;
    #[cfg(not(kani))]
    pub const MAXOS: usize = 64;
    pub mod error {
        #[derive(Debug, PartialEq, Eq)]
        pub struct RecvError(pub(crate) ());
        #[derive(Debug, PartialEq, Eq)]
        pub enum TryRecvError {
            Empty,
            Closed,
        }
        impl std::fmt::Display for RecvError {
            fn fmt(&self, f: &mut std::fmt::Formatter<'_>) -> std::fmt::Result {
                f.write_str("channel closed")
            }
        }
        impl std::error::Error for RecvError {}
    }
    #[derive(Clone, Copy)]
    pub struct OsCtr {
        pub has_value: bool,
        pub tx_dropped: bool,
        pub rx_dropped: bool,
        pub cell: usize,
    }
    const OS0: OsCtr = OsCtr { has_value: false, tx_dropped: false, rx_dropped: false, cell: 0 };
    pub static mut OS: [OsCtr; MAXOS] = [OS0; MAXOS];
    pub static mut NOS: usize = 0;
    #[inline(always)]
    #[allow(static_mut_refs)]
    fn os(id: u8) -> &'static mut OsCtr {
        unsafe { &mut OS[id as usize] }
    }
    pub fn oneshots_created() -> usize {
        unsafe { NOS }
    }
    pub fn model_reset() {
        unsafe {
            OS = [OS0; MAXOS];
            NOS = 0;
        }
    }
    /// harness introspection
    pub fn model_has_value(id: u8) -> bool {
        (id as usize) < oneshots_created() && os(id).has_value
    }
    pub fn model_tx_dropped(id: u8) -> bool {
        (id as usize) < oneshots_created() && os(id).tx_dropped
    }
    pub fn model_rx_dropped(id: u8) -> bool {
        (id as usize) < oneshots_created() && os(id).rx_dropped
    }
    #[allow(clippy::mut_from_ref)]
    fn cell<'a, T>(id: u8) -> &'a mut Option<T> {
        unsafe { &mut *(os(id).cell as *mut Option<T>) }
    }

    pub struct Sender<T> {
        id: u8,
        _p: PhantomData<fn(T) -> T>,
    }
    pub struct Receiver<T> {
        id: u8,
        _p: PhantomData<fn(T) -> T>,
    }
    impl<T> std::fmt::Debug for Sender<T> {
        fn fmt(&self, f: &mut std::fmt::Formatter<'_>) -> std::fmt::Result {
            f.write_str("oneshot::Sender")
        }
    }
    impl<T> std::fmt::Debug for Receiver<T> {
        fn fmt(&self, f: &mut std::fmt::Formatter<'_>) -> std::fmt::Result {
            f.write_str("oneshot::Receiver")
        }
    }
    pub fn channel<T>() -> (Sender<T>, Receiver<T>) {
        let id = unsafe {
            let id = NOS;
            assert!(id < MAXOS, "model bound: oneshots <= MAXOS");
            NOS += 1;
            id as u8
        };
        let c: *mut Option<T> = Box::into_raw(Box::new(None));
        let o = os(id);
        *o = OS0;
        o.cell = c as usize;
        (Sender { id, _p: PhantomData }, Receiver { id, _p: PhantomData })
    }
    impl<T> Sender<T> {
        pub fn model_id(&self) -> u8 {
            self.id
        }
        pub fn send(self, v: T) -> Result<(), T> {
            let o = os(self.id);
            if o.rx_dropped {
                return Err(v);
            }
            *cell::<T>(self.id) = Some(v);
            o.has_value = true;
            Ok(())
        }
        pub fn is_closed(&self) -> bool {
            os(self.id).rx_dropped
        }
    }
    impl<T> Drop for Sender<T> {
        fn drop(&mut self) {
            os(self.id).tx_dropped = true;
        }
    }
    impl<T> Drop for Receiver<T> {
        fn drop(&mut self) {
            let o = os(self.id);
            o.rx_dropped = true;
            if o.has_value {
                o.has_value = false;
                drop(cell::<T>(self.id).take());
            }
        }
    }
    impl<T> Unpin for Receiver<T> {}
    impl<T> Receiver<T> {
        pub fn model_id(&self) -> u8 {
            self.id
        }
        fn poll_inner(&mut self) -> Poll<Result<T, error::RecvError>> {
            let o = os(self.id);
            if o.has_value {
                o.has_value = false;
                return Poll::Ready(Ok(cell::<T>(self.id).take().expect("model: value flagged")));
            }
            if o.tx_dropped {
                return Poll::Ready(Err(error::RecvError(())));
            }
            Poll::Pending
        }
        pub fn close(&mut self) {
            os(self.id).rx_dropped = true;
        }
        pub fn try_recv(&mut self) -> Result<T, error::TryRecvError> {
            match self.poll_inner() {
                Poll::Ready(Ok(v)) => Ok(v),
                Poll::Ready(Err(_)) => Err(error::TryRecvError::Closed),
                Poll::Pending => Err(error::TryRecvError::Empty),
            }
        }
        pub fn blocking_recv(mut self) -> Result<T, error::RecvError> {
            let mut n = 0;
            loop {
                if let Poll::Ready(r) = self.poll_inner() {
                    return r;
                }
                crate::exec::blocking_env_step(n);
                n += 1;
            }
        }
    }
    impl<T> Future for Receiver<T> {
        type Output = Result<T, error::RecvError>;
        fn poll(mut self: Pin<&mut Self>, _cx: &mut Context<'_>) -> Poll<Self::Output> {
            self.poll_inner()
        }
    }
}
