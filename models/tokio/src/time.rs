//! Virtual clock.  `NOW` only moves when the harness calls `advance`.  `timeout(d, f)` follows
//! tokio's `Timeout::poll`: the deadline is fixed at construction (`now + d`), each poll first
//! polls `f` and only then looks at the deadline.
use std::future::Future;
use std::pin::Pin;
use std::task::{Context, Poll};
pub use std::time::Duration;

pub static mut NOW_NS: u64 = 0;
/// bumped by every `advance_ns` call (lets a test future wait for "the clock has moved")
pub static mut CLOCK_VERSION: u64 = 0;
pub fn clock_version() -> u64 {
    unsafe { CLOCK_VERSION }
}
/// every `Duration` handed to `timeout`/`sleep` since the start (last one, count): lets a
/// harness check that a forwarder passes its timeout argument on unmodified.
pub static mut LAST_TIMEOUT_NS: u64 = 0;
pub static mut TIMEOUTS_CREATED: usize = 0;
pub fn model_reset() {
    unsafe {
        NOW_NS = 0;
        CLOCK_VERSION = 0;
        LAST_TIMEOUT_NS = 0;
        TIMEOUTS_CREATED = 0;
    }
}
pub fn timeouts_created() -> usize {
    unsafe { TIMEOUTS_CREATED }
}
pub fn last_timeout_ns() -> u64 {
    unsafe { LAST_TIMEOUT_NS }
}
pub fn deadline_after(d: Duration) -> u64 {
    let ns = dur_ns(d);
    unsafe {
        LAST_TIMEOUT_NS = ns;
        TIMEOUTS_CREATED += 1;
    }
    now_ns().saturating_add(ns)
}
pub fn now_ns() -> u64 {
    unsafe { NOW_NS }
}
pub fn advance_ns(d: u64) {
    unsafe {
        NOW_NS = NOW_NS.saturating_add(d);
        CLOCK_VERSION += 1;
    }
}
fn dur_ns(d: Duration) -> u64 {
    let n = d.as_nanos();
    if n > u64::MAX as u128 {
        u64::MAX
    } else {
        n as u64
    }
}

#[derive(Clone, Copy, Debug, PartialEq, Eq, PartialOrd, Ord)]
pub struct Instant(u64);
impl Instant {
    pub fn now() -> Instant {
        Instant(now_ns())
    }
    pub fn elapsed(&self) -> Duration {
        Duration::from_nanos(now_ns().saturating_sub(self.0))
    }
}

pub mod error {
    #[derive(Debug, PartialEq, Eq)]
    pub struct Elapsed(pub(crate) ());
    impl std::fmt::Display for Elapsed {
        fn fmt(&self, f: &mut std::fmt::Formatter<'_>) -> std::fmt::Result {
            f.write_str("deadline has elapsed")
        }
    }
    impl std::error::Error for Elapsed {}
}

pub struct Sleep {
    deadline: u64,
}
pub fn sleep(d: Duration) -> Sleep {
    let ns = dur_ns(d);
    unsafe {
        LAST_TIMEOUT_NS = ns;
        TIMEOUTS_CREATED += 1;
    }
    Sleep { deadline: now_ns().saturating_add(ns) }
}
impl Future for Sleep {
    type Output = ();
    fn poll(self: Pin<&mut Self>, _cx: &mut Context<'_>) -> Poll<()> {
        if now_ns() >= self.deadline {
            Poll::Ready(())
        } else {
            Poll::Pending
        }
    }
}

pub struct Timeout<F> {
    fut: F,
    deadline: u64,
}
pub fn timeout<F: Future>(d: Duration, fut: F) -> Timeout<F> {
    let ns = dur_ns(d);
    unsafe {
        LAST_TIMEOUT_NS = ns;
        TIMEOUTS_CREATED += 1;
    }
    Timeout { fut, deadline: now_ns().saturating_add(ns) }
}
impl<F: Future> Future for Timeout<F> {
    type Output = Result<F::Output, error::Elapsed>;
    fn poll(self: Pin<&mut Self>, cx: &mut Context<'_>) -> Poll<Self::Output> {
        let me = unsafe { self.get_unchecked_mut() };
        let f = unsafe { Pin::new_unchecked(&mut me.fut) };
        if let Poll::Ready(v) = f.poll(cx) {
            return Poll::Ready(Ok(v));
        }
        if now_ns() >= me.deadline {
            return Poll::Ready(Err(error::Elapsed(())));
        }
        Poll::Pending
    }
}
