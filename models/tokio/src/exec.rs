//! Harness-side plumbing: a no-op waker and the "environment step" used by the blocking API
//! model (the harness installs a function that lets the rest of the system make one step).
use std::task::{RawWaker, RawWakerVTable, Waker};
const NOOP_RAW_WAKER: RawWaker = {
    unsafe fn clone_waker(_: *const ()) -> RawWaker {
        NOOP_RAW_WAKER
    }
    unsafe fn noop(_: *const ()) {}
    RawWaker::new(std::ptr::null(), &RawWakerVTable::new(clone_waker, noop, noop, noop))
};
pub fn noop_waker() -> Waker {
    unsafe { Waker::from_raw(NOOP_RAW_WAKER) }
}

/// Installed by a harness: `f(n)` lets the environment make its n-th step while a blocking
/// call waits.  Default: no environment; a blocking call that cannot proceed is a dead end
/// (`assume(false)` under Kani, panic natively).
pub static mut BLOCKING_ENV: Option<fn(usize)> = None;
pub fn set_blocking_env(f: fn(usize)) {
    unsafe { BLOCKING_ENV = Some(f) }
}
pub fn blocking_env_step(n: usize) {
    match unsafe { BLOCKING_ENV } {
        Some(f) => f(n),
        None => dead_end(),
    }
}
pub fn dead_end() -> ! {
    #[cfg(kani)]
    {
        kani::assume(false);
        unreachable!()
    }
    #[cfg(not(kani))]
    {
        panic!("model: blocking call with no environment step installed")
    }
}
