//! Verification model of the tokio API subset used by rsactor.  See /verif/DESIGN.md §2.
//! `select!` is tokio's own macro (src/macros/select.rs is a verbatim copy of tokio 1.49's
//! file, `tokio-macros` is the real crate); only `macros::support` is modelled.
#![allow(dead_code)]
#![allow(clippy::all)]
#[macro_use]
pub mod macros;
pub mod exec;
pub mod sync;
pub mod task;
pub mod time;
pub use task::spawn;
#[doc(hidden)]
pub use tokio_macros::select_priv_clean_pattern;
#[doc(hidden)]
pub use tokio_macros::select_priv_declare_output_enum;

pub mod runtime {
    //! `Builder::new_current_thread().enable_time().build()?.block_on(f)`: the model drives `f`
    //! on the calling "thread"; between polls the harness-installed environment takes a step.
    use std::future::Future;
    use std::task::{Context, Poll};
    pub struct Builder;
    pub struct Runtime;
    /// `Handle::try_current()`: Ok inside a task or `block_on`, Err on a plain thread.  The
    /// harness that polls tasks by hand brackets each poll with `model_set_context`.
    #[derive(Debug, Clone)]
    pub struct Handle;
    #[derive(Debug, Clone, Copy, PartialEq, Eq)]
    #[non_exhaustive]
    pub enum RuntimeFlavor {
        CurrentThread,
        MultiThread,
    }
    #[derive(Debug)]
    pub struct TryCurrentError;
    impl std::fmt::Display for TryCurrentError {
        fn fmt(&self, f: &mut std::fmt::Formatter<'_>) -> std::fmt::Result {
            f.write_str("no reactor running")
        }
    }
    impl std::error::Error for TryCurrentError {}
    static mut CONTEXT_DEPTH: u32 = 0;
    pub fn model_set_context(enter: bool) {
        unsafe {
            if enter {
                CONTEXT_DEPTH += 1;
            } else if CONTEXT_DEPTH > 0 {
                CONTEXT_DEPTH -= 1;
            }
        }
    }
    impl Handle {
        pub fn try_current() -> Result<Handle, TryCurrentError> {
            if unsafe { CONTEXT_DEPTH } > 0 {
                Ok(Handle)
            } else {
                Err(TryCurrentError)
            }
        }
        /// spawns onto "the" runtime of the model
        pub fn spawn<F>(&self, future: F) -> crate::task::JoinHandle<F::Output>
        where
            F: Future + Send + 'static,
            F::Output: Send + 'static,
        {
            crate::task::spawn(future)
        }
        pub fn runtime_flavor(&self) -> RuntimeFlavor {
            RuntimeFlavor::CurrentThread
        }
        pub fn current() -> Handle {
            Handle::try_current().expect("there is no reactor running, must be called from the context of a Tokio 1.x runtime")
        }
    }
    impl Builder {
        pub fn new_current_thread() -> Builder {
            Builder
        }
        pub fn new_multi_thread() -> Builder {
            Builder
        }
        pub fn enable_time(&mut self) -> &mut Self {
            self
        }
        pub fn enable_all(&mut self) -> &mut Self {
            self
        }
        pub fn build(&mut self) -> std::io::Result<Runtime> {
            Ok(Runtime)
        }
    }
    impl Runtime {
        pub fn block_on<F: Future>(&self, f: F) -> F::Output {
            let mut f = std::pin::pin!(f);
            let w = crate::exec::noop_waker();
            let mut cx = Context::from_waker(&w);
            let mut n = 0;
            model_set_context(true);
            loop {
                if let Poll::Ready(r) = f.as_mut().poll(&mut cx) {
                    model_set_context(false);
                    return r;
                }
                crate::exec::blocking_env_step(n);
                n += 1;
            }
        }
    }
}
