//! `spawn` / `JoinHandle` / `task_local!`.
//!
//! `spawn(f)`: the model has no scheduler of its own.  A harness that wants to run the spawned
//! future registers a typed slot with `exec`-style plumbing (`set_spawn_slot`) and polls the
//! future itself; without a slot the future is dropped on the floor... no: it is *forgotten*
//! (never polled, never dropped), which models a task that is never scheduled.
use std::future::Future;
use std::marker::PhantomData;
use std::pin::Pin;
use std::task::{Context, Poll};

#[cfg(kani)]
pub const MAXJH: usize = 4;
#[cfg(not(kani))]
pub const MAXJH: usize = 32;
#[derive(Clone, Copy, PartialEq, Eq, Debug)]
pub enum JhState {
    Running,
    Finished,
    Panicked,
    Cancelled,
    Taken,
}
#[derive(Clone, Copy)]
pub struct JhCtr {
    pub state: JhState,
    pub cell: usize,
}
pub static mut JH: [JhCtr; MAXJH] = [JhCtr { state: JhState::Running, cell: 0 }; MAXJH];
pub static mut NJH: usize = 0;
#[allow(static_mut_refs)]
fn jh(id: u8) -> &'static mut JhCtr {
    unsafe { &mut JH[id as usize] }
}
pub fn tasks_spawned() -> usize {
    unsafe { NJH }
}

#[derive(Debug)]
pub struct JoinError {
    panicked: bool,
    /// identifies which task produced it (so a test can check the very error is forwarded)
    pub task: u8,
}
impl JoinError {
    pub fn is_panic(&self) -> bool {
        self.panicked
    }
    pub fn is_cancelled(&self) -> bool {
        !self.panicked
    }
}
impl std::fmt::Display for JoinError {
    fn fmt(&self, f: &mut std::fmt::Formatter<'_>) -> std::fmt::Result {
        f.write_str("JoinError")
    }
}
impl std::error::Error for JoinError {}

pub struct JoinHandle<T> {
    id: u8,
    _p: PhantomData<fn() -> T>,
}
impl<T> std::fmt::Debug for JoinHandle<T> {
    fn fmt(&self, f: &mut std::fmt::Formatter<'_>) -> std::fmt::Result {
        f.write_str("JoinHandle")
    }
}
unsafe impl<T: Send> Send for JoinHandle<T> {}
unsafe impl<T: Send> Sync for JoinHandle<T> {}
impl<T> Unpin for JoinHandle<T> {}
impl<T> JoinHandle<T> {
    pub fn model_id(&self) -> u8 {
        self.id
    }
    pub fn abort(&self) {
        let j = jh(self.id);
        if j.state == JhState::Running {
            j.state = JhState::Cancelled;
        }
    }
    pub fn is_finished(&self) -> bool {
        jh(self.id).state != JhState::Running
    }
}
/// harness side: create a task record without a future (the harness plays the task)
pub fn model_new_task<T>() -> JoinHandle<T> {
    let id = unsafe {
        let id = NJH;
        assert!(id < MAXJH, "model bound: spawned tasks <= MAXJH");
        NJH += 1;
        id as u8
    };
    let c: *mut Option<T> = Box::into_raw(Box::new(None));
    *jh(id) = JhCtr { state: JhState::Running, cell: c as usize };
    JoinHandle { id, _p: PhantomData }
}
pub fn model_finish_task<T>(id: u8, v: T) {
    let j = jh(id);
    if j.state == JhState::Running {
        unsafe { *(j.cell as *mut Option<T>) = Some(v) };
        j.state = JhState::Finished;
    }
}
pub fn model_panic_task(id: u8) {
    let j = jh(id);
    if j.state == JhState::Running {
        j.state = JhState::Panicked;
    }
}
impl<T> Future for JoinHandle<T> {
    type Output = Result<T, JoinError>;
    fn poll(self: Pin<&mut Self>, _cx: &mut Context<'_>) -> Poll<Self::Output> {
        let j = jh(self.id);
        match j.state {
            JhState::Running => Poll::Pending,
            JhState::Finished => {
                j.state = JhState::Taken;
                let v = unsafe { (*(j.cell as *mut Option<T>)).take() };
                Poll::Ready(Ok(v.expect("model: finished task has a value")))
            }
            JhState::Panicked => Poll::Ready(Err(JoinError { panicked: true, task: self.id })),
            JhState::Cancelled => Poll::Ready(Err(JoinError { panicked: false, task: self.id })),
            JhState::Taken => panic!("JoinHandle polled after completion"),
        }
    }
}

/// Where `spawn` puts the future: a typed, harness-owned slot (address + size for a sanity
/// check).  The harness later polls the future in place.
pub static mut SPAWN_SLOT: usize = 0;
pub static mut SPAWN_SLOT_SIZE: usize = 0;
pub static mut SPAWN_FILLED: bool = false;
pub fn set_spawn_slot<F>(slot: *mut std::mem::MaybeUninit<F>) {
    unsafe {
        SPAWN_SLOT = slot as usize;
        SPAWN_SLOT_SIZE = std::mem::size_of::<F>();
        SPAWN_FILLED = false;
    }
}
/// Native runs (cross-validation of the MIR interpreter, replay): spawned futures are kept in
/// a registry and polled by the harness executor by task id.  Not compiled under Kani (boxed
/// futures are what CBMC cannot afford).
#[cfg(not(kani))]
pub mod native {
    use super::*;
    use std::cell::RefCell;
    pub type BoxedTask = Pin<Box<dyn Future<Output = ()>>>;
    thread_local! {
        pub static SPAWNED: RefCell<Vec<(u8, Option<BoxedTask>)>> = RefCell::new(Vec::new());
    }
    pub fn reset() {
        SPAWNED.with(|s| s.borrow_mut().clear());
        unsafe {
            NJH = 0;
        }
    }
    pub fn take(id: u8) -> Option<BoxedTask> {
        SPAWNED.with(|s| s.borrow_mut().iter_mut().find(|(i, _)| *i == id).and_then(|(_, f)| f.take()))
    }
    pub fn put_back(id: u8, f: BoxedTask) {
        SPAWNED.with(|s| {
            if let Some(e) = s.borrow_mut().iter_mut().find(|(i, _)| *i == id) {
                e.1 = Some(f);
            }
        })
    }
    pub fn last_id() -> Option<u8> {
        SPAWNED.with(|s| s.borrow().last().map(|(i, _)| *i))
    }
}

#[cfg(not(kani))]
pub fn spawn<F>(future: F) -> JoinHandle<F::Output>
where
    F: Future + Send + 'static,
    F::Output: Send + 'static,
{
    let h = model_new_task::<F::Output>();
    let id = h.id;
    let wrapped: native::BoxedTask = Box::pin(async move {
        let out = future.await;
        model_finish_task::<F::Output>(id, out);
    });
    native::SPAWNED.with(|s| s.borrow_mut().push((id, Some(wrapped))));
    h
}

#[cfg(kani)]
pub fn spawn<F>(future: F) -> JoinHandle<F::Output>
where
    F: Future + Send + 'static,
    F::Output: Send + 'static,
{
    let h = model_new_task::<F::Output>();
    unsafe {
        if SPAWN_SLOT != 0 && !SPAWN_FILLED && SPAWN_SLOT_SIZE == std::mem::size_of::<F>() {
            std::ptr::write(SPAWN_SLOT as *mut F, future);
            SPAWN_FILLED = true;
        } else {
            std::mem::forget(future);
        }
    }
    h
}
/// `yield_now().await`: pending once (the harness scheduler decides who runs next)
pub struct YieldNow {
    done: bool,
}
pub fn yield_now() -> YieldNow {
    YieldNow { done: false }
}
impl Future for YieldNow {
    type Output = ();
    fn poll(mut self: Pin<&mut Self>, _cx: &mut Context<'_>) -> Poll<()> {
        if self.done {
            Poll::Ready(())
        } else {
            self.done = true;
            Poll::Pending
        }
    }
}
pub fn spawn_blocking<F, R>(f: F) -> JoinHandle<R>
where
    F: FnOnce() -> R + Send + 'static,
    R: Send + 'static,
{
    let h = model_new_task::<R>();
    let v = f();
    model_finish_task(h.id, v);
    h
}

// ---- task_local! -------------------------------------------------------------------------
pub mod task_local_impl {
    use std::cell::UnsafeCell;
    use std::future::Future;
    use std::pin::Pin;
    use std::task::{Context, Poll};
    #[derive(Debug)]
    pub struct AccessError;
    pub struct LocalKey<T: 'static> {
        v: UnsafeCell<Option<T>>,
    }
    unsafe impl<T> Sync for LocalKey<T> {}
    impl<T: 'static> LocalKey<T> {
        pub const fn new() -> Self {
            LocalKey { v: UnsafeCell::new(None) }
        }
        #[allow(clippy::mut_from_ref)]
        fn slot(&'static self) -> &'static mut Option<T> {
            unsafe { &mut *self.v.get() }
        }
        pub fn scope<F: Future>(&'static self, value: T, f: F) -> TaskLocalFuture<T, F> {
            TaskLocalFuture { key: self, slot: Some(value), fut: f }
        }
        pub fn try_with<R>(&'static self, f: impl FnOnce(&T) -> R) -> Result<R, AccessError> {
            match self.slot() {
                Some(v) => Ok(f(v)),
                None => Err(AccessError),
            }
        }
        pub fn with<R>(&'static self, f: impl FnOnce(&T) -> R) -> R {
            self.try_with(f).expect("task-local not set")
        }
        pub fn get(&'static self) -> T
        where
            T: Clone,
        {
            self.with(|v| v.clone())
        }
    }
    /// tokio's `TaskLocalFuture`: the value is swapped into the key for the duration of each
    /// poll of the inner future and swapped back out afterwards.
    pub struct TaskLocalFuture<T: 'static, F> {
        key: &'static LocalKey<T>,
        slot: Option<T>,
        fut: F,
    }
    impl<T: 'static, F: Future> Future for TaskLocalFuture<T, F> {
        type Output = F::Output;
        fn poll(self: Pin<&mut Self>, cx: &mut Context<'_>) -> Poll<Self::Output> {
            let me = unsafe { self.get_unchecked_mut() };
            std::mem::swap(me.key.slot(), &mut me.slot);
            let r = unsafe { Pin::new_unchecked(&mut me.fut) }.poll(cx);
            std::mem::swap(me.key.slot(), &mut me.slot);
            r
        }
    }
}
pub use task_local_impl::LocalKey;
pub mod futures {
    pub use super::task_local_impl::TaskLocalFuture;
}
