//! No-op model of `tracing`: events evaluate nothing, spans are unit values, `Instrument` is a
//! pass-through, `#[instrument]` is the identity attribute.
use std::future::Future;
use std::pin::Pin;
use std::task::{Context, Poll};
pub use instrument_attr::instrument;
#[derive(Clone, Debug)]
pub struct Span;
impl Span {
    pub fn none() -> Span {
        Span
    }
    pub fn current() -> Span {
        Span
    }
}
pub struct Instrumented<T> {
    inner: T,
}
impl<T: Future> Future for Instrumented<T> {
    type Output = T::Output;
    fn poll(self: Pin<&mut Self>, cx: &mut Context<'_>) -> Poll<Self::Output> {
        unsafe { self.map_unchecked_mut(|s| &mut s.inner) }.poll(cx)
    }
}
pub trait Instrument: Sized {
    fn instrument(self, _span: Span) -> Instrumented<Self> {
        Instrumented { inner: self }
    }
    fn in_current_span(self) -> Instrumented<Self> {
        Instrumented { inner: self }
    }
}
impl<T: Sized> Instrument for T {}
/// Events at WARN and ERROR level are observable by the verification engines: the macro
/// arguments are not evaluated, the level is reported to `__verif_event` (a counter natively and
/// under Kani; an intercepted call in the MIR interpreter).
pub static mut VERIF_EVENTS: [u32; 3] = [0; 3];
#[inline(never)]
pub fn __verif_event(level: u8) {
    unsafe {
        VERIF_EVENTS[(level % 3) as usize] += 1;
    }
}
#[macro_export]
macro_rules! trace { ($($t:tt)*) => { () } }
#[macro_export]
macro_rules! debug { ($($t:tt)*) => { () } }
#[macro_export]
macro_rules! info { ($($t:tt)*) => { () } }
#[macro_export]
macro_rules! warn { ($($t:tt)*) => { $crate::__verif_event(1) } }
#[macro_export]
macro_rules! error { ($($t:tt)*) => { $crate::__verif_event(2) } }
#[macro_export]
macro_rules! trace_span { ($($t:tt)*) => { $crate::Span::none() } }
#[macro_export]
macro_rules! debug_span { ($($t:tt)*) => { $crate::Span::none() } }
#[macro_export]
macro_rules! info_span { ($($t:tt)*) => { $crate::Span::none() } }
