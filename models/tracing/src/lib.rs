//! No-op model of `tracing`: events evaluate nothing, spans are unit values, `Instrument` is a
//! pass-through, `#[instrument]` is the identity attribute.
use std::future::Future;
use std::pin::Pin;
use std::task::{Context, Poll};
pub use instrument_attr::instrument;
#[derive(Clone, Debug)]
pub struct Span;
impl Span {
    pub fn none() -> Span {
        Span
    }
    pub fn current() -> Span {
        Span
    }
}
pub struct Instrumented<T> {
    inner: T,
}
impl<T: Future> Future for Instrumented<T> {
    type Output = T::Output;
    fn poll(self: Pin<&mut Self>, cx: &mut Context<'_>) -> Poll<Self::Output> {
        unsafe { self.map_unchecked_mut(|s| &mut s.inner) }.poll(cx)
    }
}
pub trait Instrument: Sized {
    fn instrument(self, _span: Span) -> Instrumented<Self> {
        Instrumented { inner: self }
    }
    fn in_current_span(self) -> Instrumented<Self> {
        Instrumented { inner: self }
    }
}
impl<T: Sized> Instrument for T {}
#[macro_export]
macro_rules! trace { ($($t:tt)*) => { () } }
#[macro_export]
macro_rules! debug { ($($t:tt)*) => { () } }
#[macro_export]
macro_rules! info { ($($t:tt)*) => { () } }
#[macro_export]
macro_rules! warn { ($($t:tt)*) => { () } }
#[macro_export]
macro_rules! error { ($($t:tt)*) => { () } }
#[macro_export]
macro_rules! trace_span { ($($t:tt)*) => { $crate::Span::none() } }
#[macro_export]
macro_rules! debug_span { ($($t:tt)*) => { $crate::Span::none() } }
#[macro_export]
macro_rules! info_span { ($($t:tt)*) => { $crate::Span::none() } }
