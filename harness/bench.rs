use super::common::*;
use std::panic as stdpanic;
macro_rules! h { ($name:ident, $body:block) => {
#[kani::proof]
#[kani::stub(stdpanic::catch_unwind, stub_catch)]
#[kani::stub(std::fmt::format, stub_format)]
#[kani::stub(crate::dead_letter::record, record_stub)]
#[kani::unwind(5)]
fn $name() $body } }

h!(b1_tell_free, {
    let mut s = mk_sys(7, 1);
    let w = cx_noop(); let mut cx = Context::from_waker(&w);
    let id: u8 = kani::any();
    { let mut f = pin!(s.r.tell(Msg(id))); assert!(matches!(f.as_mut().poll(&mut cx), Poll::Ready(Ok(())))); }
    assert!(ctr(mbox_id(&s)).len == 1);
    std::mem::forget(s);
});
h!(b2_ask_reply, {
    let mut s = mk_sys(7, 1);
    let w = cx_noop(); let mut cx = Context::from_waker(&w);
    let id: u8 = kani::any();
    let r = s.r.clone();
    let mut f = pin!(r.ask(Msg(id)));
    assert!(f.as_mut().poll(&mut cx).is_pending());
    assert!(env_take(&mut s, true) == 1);
    match f.as_mut().poll(&mut cx) { Poll::Ready(Ok(v)) => assert!(v == reply_of(id)), _ => panic!("no reply") }
    std::mem::forget(s);
});
h!(b3_tellt_timeout, {
    let mut s = mk_sys(7, 1);
    let e = MailboxMessage::Envelope { payload: Box::new(Msg(200)), reply_channel: None, actor_ref: s.r.clone() };
    assert!(s.r.verif_sender().try_send(e).is_ok());
    let w = cx_noop(); let mut cx = Context::from_waker(&w);
    let id: u8 = kani::any();
    let r = s.r.clone();
    let mut f = pin!(r.tell_with_timeout(Msg(id), Duration::from_nanos(3)));
    assert!(f.as_mut().poll(&mut cx).is_pending());
    let dt: u8 = kani::any(); kani::assume(dt <= 5);
    tokio::time::advance_ns(dt as u64);
    match f.as_mut().poll(&mut cx) {
        Poll::Ready(Err(Error::Timeout{..})) => assert!(dt >= 3),
        Poll::Pending => assert!(dt < 3),
        _ => panic!("unexpected"),
    }
    std::mem::forget(s);
});
h!(b4_ask_sym_env, {
    let mut s = mk_sys(7, 1);
    let w = cx_noop(); let mut cx = Context::from_waker(&w);
    let id: u8 = kani::any();
    let r = s.r.clone();
    let mut f = pin!(r.ask(Msg(id)));
    assert!(f.as_mut().poll(&mut cx).is_pending());
    let a: bool = kani::any();
    let t = env_take(&mut s, a);
    match f.as_mut().poll(&mut cx) {
        Poll::Ready(Ok(v)) => assert!(a && v == reply_of(id)),
        Poll::Ready(Err(Error::Receive{..})) => assert!(!a),
        _ => panic!("unexpected"),
    }
    std::mem::forget(s);
});
