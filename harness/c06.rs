//! C06 (function level): kill() never blocks and never fails, whatever the state of the
//! termination channel and of the mailbox; it leaves exactly one Terminate signal pending on
//! a live actor and is idempotent.
use super::common::*;
use std::panic as stdpanic;

macro_rules! kill_harness {
    ($name:ident, $cap:expr, $fill:expr) => {
        #[kani::proof]
        #[kani::stub(stdpanic::catch_unwind, stub_catch)]
        #[kani::stub(std::fmt::format, stub_format)]
        #[kani::unwind(5)]
        fn $name() {
            kill_case($cap, $fill)
        }
    };
}
// mailbox capacity / occupancy are enumerated (symbolic heap content is what CBMC pays for);
// the termination-channel state, the number of kills and the handle used are symbolic.
kill_harness!(c06_kill_mailbox_empty, 1, 0);
kill_harness!(c06_kill_mailbox_full_cap1, 1, 1);
kill_harness!(c06_kill_mailbox_part_cap3, 3, 1);
kill_harness!(c06_kill_mailbox_full_cap3, 3, 3);

fn kill_case(cap: usize, fill: usize) {
    let mut s = mk_sys(1, cap);
    let mut i = 0;
    while i < 3 {
        if i < fill {
            let e = MailboxMessage::Envelope { payload: Box::new(Msg(i as u8)), reply_channel: None, actor_ref: s.r.clone() };
            assert!(s.r.verif_sender().try_send(e).is_ok());
        }
        i += 1;
    }
    // termination channel state: 0 empty, 1 already holds a signal, 2 receiver closed,
    // 3 receiver dropped (actor gone), 4 mailbox receiver closed only
    let st: u8 = kani::any();
    kani::assume(st < 5);
    let r2 = s.r.clone();
    let Sys { r, mut mrx, mut trx, .. } = s;
    let tid = trx.model_id();
    let mut trx_opt = Some(trx);
    match st {
        1 => assert!(r.kill().is_ok()),
        2 => trx_opt.as_mut().unwrap().close(),
        3 => drop(trx_opt.take()),
        4 => mrx.close(),
        _ => {}
    }
    let before = ctr(tid).len;
    let kills: u8 = kani::any();
    kani::assume(kills >= 1 && kills <= 3);
    let mut k = 0;
    while k < 3 {
        if k < kills {
            // through the original or a clone, symbolically
            let via_clone: bool = kani::any();
            let res = if via_clone { r2.kill() } else { r.kill() };
            assert!(res.is_ok());
        }
        k += 1;
    }
    let after = ctr(tid).len;
    match st {
        0 | 4 => assert!(before == 0 && after == 1),
        1 => assert!(before == 1 && after == 1),
        _ => assert!(after == 0),
    }
    // the mailbox is untouched by kill
    assert!(ctr(mrx.model_id()).len == fill);
    kani::cover!(st == 0 && kills == 3);
    kani::cover!(st == 3);
    kani::cover!(st == 1);
    std::mem::forget(trx_opt);
    std::mem::forget(mrx);
}
