use super::common::*;
use std::panic as stdpanic;

pub struct Z;
pub static mut ZLOG: [u8; 4] = [0; 4];
pub static mut ZN: usize = 0;
pub static mut ZSTOP: u8 = 0;
impl Actor for Z {
    type Args = ();
    type Error = ();
    async fn on_start(_: (), _: &ActorRef<Self>) -> std::result::Result<Self, ()> { Ok(Z) }
    async fn on_stop(&mut self, _: &ActorWeak<Self>, _killed: bool) -> std::result::Result<(), ()> { unsafe { ZSTOP += 1; } Ok(()) }
}
pub struct M(pub u8);
impl Message<M> for Z {
    type Reply = u8;
    async fn handle(&mut self, m: M, _: &ActorRef<Self>) -> u8 { unsafe { if ZN < 4 { ZLOG[ZN] = m.0; } ZN += 1; } m.0 }
}
fn mkz(cap: usize) -> (ActorRef<Z>, impl Future<Output = ActorResult<Z>>) {
    let (mailbox_tx, mailbox_rx) = tokio::sync::mpsc::channel(cap);
    let (terminate_tx, terminate_rx) = tokio::sync::mpsc::channel::<ControlSignal>(1);
    let actor_ref: ActorRef<Z> = ActorRef::new(Identity::new(1, "Z"), mailbox_tx, terminate_tx);
    let life = crate::actor::run_actor_lifecycle((), actor_ref.clone(), mailbox_rx, terminate_rx);
    (actor_ref, life)
}

#[cfg(kani)]
mod k {
use super::*;
#[kani::proof]
#[kani::stub(stdpanic::catch_unwind, stub_catch)]
#[kani::stub(std::fmt::format, stub_format)]
#[kani::unwind(6)]
fn p1_handle_direct() {
    let (mailbox_tx, mailbox_rx) = tokio::sync::mpsc::channel::<MailboxMessage<Z>>(1);
    let (terminate_tx, terminate_rx) = tokio::sync::mpsc::channel::<ControlSignal>(1);
    let actor_ref: ActorRef<Z> = ActorRef::new(Identity::new(1, "Z"), mailbox_tx, terminate_tx);
    let waker = tokio::exec::noop_waker();
    let cx = &mut Context::from_waker(&waker);
    let mut actor = Z;
    let payload: Box<dyn PayloadHandler<Z>> = Box::new(M(3));
    {
        let mut f = payload.handle_message(&mut actor, actor_ref.clone(), None);
        assert!(f.as_mut().poll(cx).is_ready());
    }
    unsafe { assert!(ZN == 1 && ZLOG[0] == 3); }
    std::mem::forget(terminate_rx); std::mem::forget(mailbox_rx);
}

#[kani::proof]
#[kani::stub(stdpanic::catch_unwind, stub_catch)]
#[kani::stub(std::fmt::format, stub_format)]
#[kani::unwind(6)]
fn p2_msg_then_pending() {
    let (actor_ref, life) = mkz(1);
    let mut life = pin!(life);
    let waker = tokio::exec::noop_waker();
    let cx = &mut Context::from_waker(&waker);
    assert!(life.as_mut().poll(cx).is_pending());
    {
        let mut t = pin!(actor_ref.tell(M(3)));
        assert!(matches!(t.as_mut().poll(cx), Poll::Ready(Ok(()))));
    }
    assert!(life.as_mut().poll(cx).is_pending());
    unsafe { assert!(ZN == 1 && ZLOG[0] == 3); }
    std::mem::forget(actor_ref);
    kani::assume(false);
}

#[kani::proof]
#[kani::stub(stdpanic::catch_unwind, stub_catch)]
#[kani::stub(std::fmt::format, stub_format)]
#[kani::unwind(6)]
fn p3_stop_only() {
    let (actor_ref, life) = mkz(1);
    let mut life = pin!(life);
    let waker = tokio::exec::noop_waker();
    let cx = &mut Context::from_waker(&waker);
    assert!(life.as_mut().poll(cx).is_pending());
    {
        let mut t = pin!(actor_ref.stop());
        assert!(matches!(t.as_mut().poll(cx), Poll::Ready(Ok(()))));
    }
    match life.as_mut().poll(cx) {
        Poll::Ready(ActorResult::Completed { killed, .. }) => { assert!(!killed); unsafe { assert!(ZSTOP == 1); } }
        _ => panic!("not completed"),
    }
}

#[kani::proof]
#[kani::stub(stdpanic::catch_unwind, stub_catch)]
#[kani::stub(std::fmt::format, stub_format)]
#[kani::unwind(6)]
fn p4_tell_drop_complete() {
    let (actor_ref, life) = mkz(1);
    let mut life = pin!(life);
    let waker = tokio::exec::noop_waker();
    let cx = &mut Context::from_waker(&waker);
    assert!(life.as_mut().poll(cx).is_pending());
    {
        let mut t = pin!(actor_ref.tell(M(3)));
        assert!(matches!(t.as_mut().poll(cx), Poll::Ready(Ok(()))));
    }
    drop(actor_ref);
    let mut res = None;
    for _ in 0..4 {
        if let Poll::Ready(r) = life.as_mut().poll(cx) { res = Some(r); break; }
    }
    match res {
        Some(ActorResult::Completed { killed, .. }) => {
            assert!(!killed);
            unsafe { assert!(ZN == 1 && ZSTOP == 1); }
        }
        _ => panic!("not completed"),
    }
}

#[kani::proof]
#[kani::stub(stdpanic::catch_unwind, stub_catch)]
#[kani::stub(std::fmt::format, stub_format)]
#[kani::unwind(8)]
fn p5_sched() {
    let cap: usize = kani::any();
    kani::assume(cap >= 1 && cap <= 2);
    let (actor_ref, life) = mkz(cap);
    let mut life = pin!(life);
    let waker = tokio::exec::noop_waker();
    let cx = &mut Context::from_waker(&waker);
    let r1 = actor_ref.clone();
    let r2 = actor_ref.clone();
    drop(actor_ref);
    let mut c1 = pin!(async move { let a = r1.tell(M(1)).await.is_ok(); let b = r1.tell(M(2)).await.is_ok(); (a, b) });
    let mut c2 = pin!(async move { let a = r2.tell(M(3)).await.is_ok(); a });
    let mut d1 = None; let mut d2 = None; let mut dl = None;
    const K: usize = 7;
    let mut step = 0;
    while step < K {
        let pick: u8 = kani::any();
        kani::assume(pick < 3);
        match pick {
            0 => { kani::assume(dl.is_none()); if let Poll::Ready(r) = life.as_mut().poll(cx) { dl = Some(r); } }
            1 => { kani::assume(d1.is_none()); if let Poll::Ready(r) = c1.as_mut().poll(cx) { d1 = Some(r); } }
            _ => { kani::assume(d2.is_none()); if let Poll::Ready(r) = c2.as_mut().poll(cx) { d2 = Some(r); } }
        }
        step += 1;
    }
    let mut round = 0;
    while round < 6 {
        if d1.is_none() { if let Poll::Ready(r) = c1.as_mut().poll(cx) { d1 = Some(r); } }
        if d2.is_none() { if let Poll::Ready(r) = c2.as_mut().poll(cx) { d2 = Some(r); } }
        if dl.is_none() { if let Poll::Ready(r) = life.as_mut().poll(cx) { dl = Some(r); } }
        round += 1;
    }
    assert!(d1 == Some((true, true)));
    assert!(d2 == Some(true));
    match dl {
        Some(ActorResult::Completed { killed, .. }) => {
            assert!(!killed);
            unsafe {
                assert!(ZN == 3);
                assert!(ZSTOP == 1);
                let mut p1 = 9; let mut p2 = 9; let mut p3 = 9;
                let mut i = 0;
                while i < 3 { if ZLOG[i] == 1 { p1 = i; } if ZLOG[i] == 2 { p2 = i; } if ZLOG[i] == 3 { p3 = i; } i += 1; }
                assert!(p1 < p2 && p2 < 3 && p3 < 3);
            }
        }
        _ => panic!("actor did not complete"),
    }
}

#[kani::proof]
#[kani::stub(stdpanic::catch_unwind, stub_catch)]
#[kani::stub(std::fmt::format, stub_format)]
#[kani::unwind(5)]
fn p6_one_poll_prefilled() {
    let (actor_ref, life) = mkz(3);
    let mut life = pin!(life);
    let waker = tokio::exec::noop_waker();
    let cx = &mut Context::from_waker(&waker);
    let e1 = MailboxMessage::Envelope { payload: Box::new(M(7)), reply_channel: None, actor_ref: actor_ref.clone() };
    assert!(actor_ref.verif_sender().try_send(e1).is_ok());
    let e2 = MailboxMessage::Envelope { payload: Box::new(M(9)), reply_channel: None, actor_ref: actor_ref.clone() };
    assert!(actor_ref.verif_sender().try_send(e2).is_ok());
    assert!(actor_ref.verif_sender().try_send(MailboxMessage::StopGracefully(actor_ref.clone())).is_ok());
    match life.as_mut().poll(cx) {
        Poll::Ready(ActorResult::Completed { killed, .. }) => {
            assert!(!killed);
            unsafe { assert!(ZN == 2 && ZLOG[0] == 7 && ZLOG[1] == 9 && ZSTOP == 1); }
        }
        _ => panic!("not completed"),
    }
}
}
