//! Native cross-validation of the MIR interpreter (and replay of its counterexamples): the same
//! scenario (scripted actor, client operation lists, schedule = the exact sequence of task polls
//! and clock advances chosen by the interpreter's scheduler) is executed here by the *compiled*
//! rsactor code against the Rust tokio model, and the event trace is printed in a canonical
//! line format that bin/mirse/xval.py compares with the interpreter's trace.
//!
//! Spec (text, one item per line; written by xval.py):
//!   actor <name> cap=<n|default> on_start=<ok|err|panic>:<y> on_run=<o>:<y>,... on_run_default=<o>:<y>
//!         on_stop=<ok|err|panic>:<y> hy=<id|*>:<y>,... panics=<id>,... err_tag=<n>
//!   client <name> keep=<0|1> refs=<actor>,... ops=<op>;<op>;...     (op = kind:actor:arg:arg)
//!   drop_main <actor>
//!   poll <task name>          (actor:<name> | client:<name>)
//!   clock <ns>
#![allow(clippy::all)]
use super::common::{stub_catch, stub_format};
use crate::*;
use std::cell::RefCell;
use std::future::Future;
use std::pin::Pin;
use std::task::{Context, Poll};
use std::time::Duration;

thread_local! {
    static EVENTS: RefCell<Vec<String>> = RefCell::new(Vec::new());
}
fn ev(s: String) {
    EVENTS.with(|e| e.borrow_mut().push(s));
}

#[derive(Clone, Debug, Default)]
pub struct Script {
    pub name: String,
    pub on_start: (String, u32),
    pub on_run: Vec<(String, String)>,
    pub on_run_default: (String, String),
    pub on_stop: (String, u32),
    pub hy: Vec<(String, String)>,
    pub panics: Vec<u8>,
    pub err_tag: u8,
}
impl Script {
    fn handler_yields(&self, id: u8) -> String {
        for (k, v) in &self.hy {
            if k == &id.to_string() {
                return v.clone();
            }
        }
        for (k, v) in &self.hy {
            if k == "*" {
                return v.clone();
            }
        }
        "0".to_string()
    }
}

/// `yields` await points: a number of self-waking Pending's, or "tick" = wait until the virtual
/// clock has moved (two polls at least, exactly like the interpreter's HookFuture)
struct Yields {
    left: u32,
    tick: bool,
    armed_at: Option<u64>,
}
impl Yields {
    fn new(spec: &str) -> Yields {
        if spec == "tick" {
            Yields { left: 0, tick: true, armed_at: None }
        } else {
            Yields { left: spec.parse().unwrap_or(0), tick: false, armed_at: None }
        }
    }
}
impl Future for Yields {
    type Output = ();
    fn poll(mut self: Pin<&mut Self>, _cx: &mut Context<'_>) -> Poll<()> {
        if self.tick {
            let now = tokio::time::clock_version();
            match self.armed_at {
                None => {
                    self.armed_at = Some(now);
                    return Poll::Pending;
                }
                Some(a) if a == now => return Poll::Pending,
                _ => {
                    self.tick = false;
                }
            }
        }
        if self.left > 0 {
            self.left -= 1;
            return Poll::Pending;
        }
        Poll::Ready(())
    }
}

pub struct XActor {
    pub script: Script,
    pub counter: u8,
    pub runs_done: usize,
}
impl Actor for XActor {
    type Args = Script;
    type Error = u8;
    async fn on_start(script: Script, _r: &ActorRef<Self>) -> std::result::Result<Self, u8> {
        ev(format!("hook_enter {} on_start", script.name));
        Yields::new(&script.on_start.1.to_string()).await;
        match script.on_start.0.as_str() {
            "panic" => panic!("scripted panic in on_start"),
            "err" => {
                ev(format!("hook_exit {} on_start Err({})", script.name, script.err_tag + 1));
                Err(script.err_tag + 1)
            }
            _ => {
                ev(format!("hook_exit {} on_start Ok", script.name));
                Ok(XActor { script, counter: 1, runs_done: 0 })
            }
        }
    }
    async fn on_run(&mut self, _w: &ActorWeak<Self>) -> std::result::Result<bool, u8> {
        let k = self.runs_done;
        let (outcome, yields) = if k < self.script.on_run.len() { self.script.on_run[k].clone() } else { self.script.on_run_default.clone() };
        let mut y = Yields::new(&yields);
        let mut entered = false;
        std::future::poll_fn(|cx| {
            if !entered {
                entered = true;
                ev(format!("hook_enter {} on_run", self.script.name));
            }
            Pin::new(&mut y).poll(cx)
        })
        .await;
        self.runs_done += 1;
        self.counter = self.counter.wrapping_add(1);
        match outcome.as_str() {
            "panic" => panic!("scripted panic in on_run"),
            "err" => {
                ev(format!("hook_exit {} on_run Err({})", self.script.name, self.script.err_tag + 2));
                Err(self.script.err_tag + 2)
            }
            "true" => {
                ev(format!("hook_exit {} on_run Ok(true)", self.script.name));
                Ok(true)
            }
            _ => {
                ev(format!("hook_exit {} on_run Ok(false)", self.script.name));
                Ok(false)
            }
        }
    }
    async fn on_stop(&mut self, _w: &ActorWeak<Self>, killed: bool) -> std::result::Result<(), u8> {
        ev(format!("hook_enter {} on_stop killed={}", self.script.name, killed));
        Yields::new(&self.script.on_stop.1.to_string()).await;
        self.counter = self.counter.wrapping_add(1);
        match self.script.on_stop.0.as_str() {
            "panic" => panic!("scripted panic in on_stop"),
            "err" => {
                ev(format!("hook_exit {} on_stop Err({})", self.script.name, self.script.err_tag + 3));
                Err(self.script.err_tag + 3)
            }
            _ => {
                ev(format!("hook_exit {} on_stop Ok", self.script.name));
                Ok(())
            }
        }
    }
}
pub struct XMsg(pub u8);
impl Message<XMsg> for XActor {
    type Reply = u8;
    async fn handle(&mut self, m: XMsg, _r: &ActorRef<Self>) -> u8 {
        ev(format!("hook_enter {} handler {}", self.script.name, m.0));
        Yields::new(&self.script.handler_yields(m.0)).await;
        self.counter = self.counter.wrapping_add(1);
        if self.script.panics.contains(&m.0) {
            panic!("scripted panic in handler");
        }
        ev(format!("hook_exit {} handler {} {}", self.script.name, m.0, m.0 ^ 0x5A));
        m.0 ^ 0x5A
    }
    fn on_tell_result(result: &u8, _r: &ActorRef<Self>) {
        ev(format!("on_tell_result {}", result));
    }
}

fn res_code<T: std::fmt::Debug>(r: &std::result::Result<T, Error>) -> String {
    match r {
        Ok(v) => format!("Ok({:?})", v),
        Err(Error::Send { .. }) => "Err(Send)".into(),
        Err(Error::Timeout { .. }) => "Err(Timeout)".into(),
        Err(Error::Receive { .. }) => "Err(Receive)".into(),
        Err(Error::Downcast { .. }) => "Err(Downcast)".into(),
        Err(_) => "Err(Other)".into(),
    }
}

struct YieldOnce(bool);
impl Future for YieldOnce {
    type Output = ();
    fn poll(mut self: Pin<&mut Self>, _cx: &mut Context<'_>) -> Poll<()> {
        if self.0 {
            Poll::Ready(())
        } else {
            self.0 = true;
            Poll::Pending
        }
    }
}

thread_local! {
    static KEPT: RefCell<Vec<ActorRef<XActor>>> = RefCell::new(Vec::new());
    static MAIN: RefCell<Vec<(String, Option<ActorRef<XActor>>)>> = RefCell::new(Vec::new());
}

async fn client(name: String, ops: Vec<Vec<String>>, mut refs: Vec<(String, Option<ActorRef<XActor>>)>, keep: bool) {
    for (i, op) in ops.iter().enumerate() {
        let kind = op[0].as_str();
        let target = op.get(1).cloned().unwrap_or_default();
        let arg = |k: usize| -> u64 { op.get(k).and_then(|s| s.parse().ok()).unwrap_or(0) };
        let r = refs.iter().position(|(n, r)| *n == target && r.is_some());
        let res: String = match (kind, r) {
            ("yield", _) => {
                YieldOnce(false).await;
                "()".into()
            }
            (_, None) if kind != "yield" => "skipped:no-reference".into(),
            ("tell", Some(ix)) => res_code(&refs[ix].1.as_ref().unwrap().tell(XMsg(arg(2) as u8)).await),
            ("ask", Some(ix)) => res_code(&refs[ix].1.as_ref().unwrap().ask(XMsg(arg(2) as u8)).await),
            ("tell_t", Some(ix)) => res_code(&refs[ix].1.as_ref().unwrap().tell_with_timeout(XMsg(arg(2) as u8), Duration::from_nanos(arg(3))).await),
            ("ask_t", Some(ix)) => res_code(&refs[ix].1.as_ref().unwrap().ask_with_timeout(XMsg(arg(2) as u8), Duration::from_nanos(arg(3))).await),
            ("stop", Some(ix)) => res_code(&refs[ix].1.as_ref().unwrap().stop().await),
            ("kill", Some(ix)) => res_code(&refs[ix].1.as_ref().unwrap().kill()),
            ("is_alive", Some(ix)) => format!("{}", refs[ix].1.as_ref().unwrap().is_alive()),
            ("drop", Some(ix)) => {
                refs[ix].1 = None;
                "()".into()
            }
            _ => format!("unsupported-op:{}", kind),
        };
        ev(format!("op_done {} {} {}", name, i, res));
    }
    if keep {
        for (_n, r) in refs.into_iter() {
            if let Some(r) = r {
                KEPT.with(|k| k.borrow_mut().push(r));
            }
        }
    }
}

struct Task {
    name: String,
    fut: Option<Pin<Box<dyn Future<Output = ()>>>>,
    join_id: Option<u8>,
    state: &'static str,
}

pub fn run_spec(spec: &str) -> Vec<String> {
    // drop what the previous spec left behind while its channels still exist, then reset the models
    let _ = std::panic::catch_unwind(|| {
        KEPT.with(|k| k.borrow_mut().clear());
        MAIN.with(|m| m.borrow_mut().clear());
        tokio::task::native::reset();
    });
    tokio::sync::mpsc::model_reset();
    tokio::sync::oneshot::model_reset();
    tokio::time::model_reset();
    EVENTS.with(|e| e.borrow_mut().clear());
    let mut tasks: Vec<Task> = Vec::new();
    let mut handles: Vec<(String, tokio::task::JoinHandle<ActorResult<XActor>>)> = Vec::new();
    let waker = tokio::exec::noop_waker();
    let mut cx = Context::from_waker(&waker);
    for line in spec.lines() {
        let line = line.trim();
        if line.is_empty() || line.starts_with('#') {
            continue;
        }
        let mut it = line.split_whitespace();
        let cmd = it.next().unwrap();
        let kv = |s: &str| -> (String, String) {
            let mut p = s.splitn(2, '=');
            (p.next().unwrap().to_string(), p.next().unwrap_or("").to_string())
        };
        match cmd {
            "actor" => {
                let name = it.next().unwrap().to_string();
                let mut sc = Script { name: name.clone(), on_start: ("ok".into(), 0), on_run_default: ("false".into(), "0".into()), on_stop: ("ok".into(), 0), err_tag: 40, ..Default::default() };
                let mut cap: Option<usize> = None;
                for f in it {
                    let (k, v) = kv(f);
                    let pair = |s: &str| -> (String, String) {
                        let mut p = s.splitn(2, ':');
                        (p.next().unwrap().to_string(), p.next().unwrap_or("0").to_string())
                    };
                    match k.as_str() {
                        "cap" => cap = v.parse().ok(),
                        "on_start" => {
                            let (a, b) = pair(&v);
                            sc.on_start = (a, b.parse().unwrap_or(0));
                        }
                        "on_stop" => {
                            let (a, b) = pair(&v);
                            sc.on_stop = (a, b.parse().unwrap_or(0));
                        }
                        "on_run" => sc.on_run = v.split(',').filter(|s| !s.is_empty()).map(pair).collect(),
                        "on_run_default" => sc.on_run_default = pair(&v),
                        "hy" => sc.hy = v.split(',').filter(|s| !s.is_empty()).map(pair).collect(),
                        "panics" => sc.panics = v.split(',').filter_map(|s| s.parse().ok()).collect(),
                        "err_tag" => sc.err_tag = v.parse().unwrap_or(40),
                        _ => {}
                    }
                }
                let (r, jh) = match cap {
                    Some(c) => spawn_with_mailbox_capacity::<XActor>(sc, c),
                    None => spawn::<XActor>(sc),
                };
                let id = tokio::task::native::last_id().expect("spawn registered a task");
                let fut = tokio::task::native::take(id);
                tasks.push(Task { name: format!("actor:{}", name), fut, join_id: Some(id), state: "running" });
                MAIN.with(|m| m.borrow_mut().push((name.clone(), Some(r))));
                handles.push((name, jh));
            }
            "client" => {
                let name = it.next().unwrap().to_string();
                let mut keep = false;
                let mut refs = Vec::new();
                let mut ops: Vec<Vec<String>> = Vec::new();
                for f in it {
                    let (k, v) = kv(f);
                    match k.as_str() {
                        "keep" => keep = v == "1",
                        "refs" => {
                            for a in v.split(',').filter(|s| !s.is_empty()) {
                                let r = MAIN.with(|m| m.borrow().iter().find(|(n, _)| n == a).and_then(|(_, r)| r.clone()));
                                refs.push((a.to_string(), r));
                            }
                        }
                        "ops" => ops = v.split(';').filter(|s| !s.is_empty()).map(|o| o.split(':').map(|s| s.to_string()).collect()).collect(),
                        _ => {}
                    }
                }
                let f: Pin<Box<dyn Future<Output = ()>>> = Box::pin(client(name.clone(), ops, refs, keep));
                tasks.push(Task { name: format!("client:{}", name), fut: Some(f), join_id: None, state: "running" });
            }
            "drop_main" => {
                let a = it.next().unwrap().to_string();
                MAIN.with(|m| {
                    if let Some(e) = m.borrow_mut().iter_mut().find(|(n, _)| *n == a) {
                        e.1 = None;
                    }
                });
            }
            "clock" => {
                let d: u64 = it.next().unwrap().parse().unwrap();
                tokio::time::advance_ns(d);
            }
            "poll" => {
                let name = it.next().unwrap();
                let t = tasks.iter_mut().find(|t| t.name == name).unwrap_or_else(|| panic!("no task {}", name));
                if let Some(mut f) = t.fut.take() {
                    let r = std::panic::catch_unwind(std::panic::AssertUnwindSafe(|| f.as_mut().poll(&mut cx)));
                    match r {
                        Ok(Poll::Ready(())) => {
                            t.state = "finished";
                            drop(f);
                        }
                        Ok(Poll::Pending) => t.fut = Some(f),
                        Err(_) => {
                            t.state = "panicked";
                            if let Some(id) = t.join_id {
                                tokio::task::model_panic_task(id);
                            }
                            // tokio drops the future of a panicked task
                            let _ = std::panic::catch_unwind(std::panic::AssertUnwindSafe(move || drop(f)));
                        }
                    }
                    if t.state != "running" {
                        ev(format!("task_end {} {}", t.name, t.state));
                    }
                } else {
                    ev(format!("poll-of-ended-task {}", name));
                }
            }
            _ => {}
        }
    }
    // final results of the actors that ended
    for (name, mut jh) in handles {
        match Pin::new(&mut jh).poll(&mut cx) {
            Poll::Ready(Ok(r)) => {
                let d = match &r {
                    ActorResult::Completed { actor, killed } => format!("Completed counter={} killed={}", actor.counter, killed),
                    ActorResult::Failed { actor, error, phase, killed } => {
                        format!("Failed counter={} error={} phase={} killed={}", actor.as_ref().map(|a| a.counter as i32).unwrap_or(-1), error, phase, killed)
                    }
                };
                ev(format!("result {} {}", name, d));
            }
            Poll::Ready(Err(e)) => ev(format!("result {} JoinError panic={}", name, e.is_panic())),
            Poll::Pending => ev(format!("result {} running", name)),
        }
    }
    EVENTS.with(|e| e.borrow().clone())
}

#[cfg(test)]
mod t {
    /// driven by bin/mirse/xval.py: XVAL_SPECS = file with specs separated by lines `=== <id>`
    #[test]
    fn xval_run() {
        let path = match std::env::var("XVAL_SPECS") {
            Ok(p) => p,
            Err(_) => return,
        };
        std::panic::set_hook(Box::new(|_| {}));
        let text = std::fs::read_to_string(&path).expect("spec file");
        let mut out = String::new();
        let mut cur_id = String::new();
        let mut cur = String::new();
        let flush = |id: &str, spec: &str, out: &mut String| {
            if id.is_empty() {
                return;
            }
            let evs = super::run_spec(spec);
            out.push_str(&format!("=== {}\n", id));
            for e in evs {
                out.push_str(&e);
                out.push('\n');
            }
        };
        for line in text.lines() {
            if let Some(id) = line.strip_prefix("=== ") {
                flush(&cur_id, &cur, &mut out);
                cur_id = id.to_string();
                cur.clear();
            } else {
                cur.push_str(line);
                cur.push('\n');
            }
        }
        flush(&cur_id, &cur, &mut out);
        std::fs::write(format!("{}.out", path), out).expect("write output");
    }
}
