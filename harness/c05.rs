//! C05 (function level): the query methods of ActorResult agree with the variant's fields,
//! for every value of the type.
use super::common::*;

fn any_phase() -> FailurePhase {
    let p: u8 = kani::any();
    kani::assume(p < 4);
    match p {
        0 => FailurePhase::OnStart,
        1 => FailurePhase::OnRun,
        2 => FailurePhase::OnStop,
        _ => FailurePhase::OnRunThenOnStop,
    }
}
struct Shape {
    completed: bool,
    killed: bool,
    phase: FailurePhase,
    has_actor: bool,
    seen: u8,
    err: u8,
}
fn any_result() -> (ActorResult<T1>, Shape) {
    let sh = Shape { completed: kani::any(), killed: kani::any(), phase: any_phase(), has_actor: kani::any(), seen: kani::any(), err: kani::any() };
    let r = if sh.completed {
        ActorResult::Completed { actor: T1 { seen: sh.seen }, killed: sh.killed }
    } else {
        ActorResult::Failed { actor: if sh.has_actor { Some(T1 { seen: sh.seen }) } else { None }, error: sh.err, phase: sh.phase, killed: sh.killed }
    };
    (r, sh)
}

#[kani::proof]
fn c05_accessor_laws() {
    let (r, s) = any_result();
    let failed = !s.completed;
    assert!(r.is_completed() == s.completed);
    assert!(r.is_failed() == failed);
    assert!(r.was_killed() == s.killed);
    assert!(r.stopped_normally() == (s.completed && !s.killed));
    assert!(r.is_startup_failed() == (failed && s.phase == FailurePhase::OnStart));
    assert!(r.is_runtime_failed() == (failed && (s.phase == FailurePhase::OnRun || s.phase == FailurePhase::OnRunThenOnStop)));
    assert!(r.is_cleanup_failed() == (failed && s.phase == FailurePhase::OnRunThenOnStop));
    assert!(r.is_stop_failed() == (failed && s.phase == FailurePhase::OnStop));
    let expect_actor = s.completed || s.has_actor;
    assert!(r.has_actor() == expect_actor);
    match r.actor() {
        Some(a) => assert!(expect_actor && a.seen == s.seen),
        None => assert!(!expect_actor),
    }
    match r.error() {
        Some(e) => assert!(failed && *e == s.err),
        None => assert!(!failed),
    }
    kani::cover!(s.completed && s.killed);
    kani::cover!(failed && !s.has_actor);
    kani::cover!(failed && s.phase == FailurePhase::OnRunThenOnStop && s.killed);
}

#[kani::proof]
fn c05_conversions() {
    let which: u8 = kani::any();
    kani::assume(which < 4);
    let (r, s) = any_result();
    let failed = !s.completed;
    let expect_actor = s.completed || s.has_actor;
    match which {
        0 => match r.into_actor() {
            Some(a) => assert!(expect_actor && a.seen == s.seen),
            None => assert!(!expect_actor),
        },
        1 => match r.into_error() {
            Some(e) => assert!(failed && e == s.err),
            None => assert!(!failed),
        },
        2 => match r.to_result() {
            Ok(a) => assert!(s.completed && a.seen == s.seen),
            Err(e) => assert!(failed && e == s.err),
        },
        _ => {
            let (a, e): (Option<T1>, Option<u8>) = r.into();
            match a {
                Some(a) => assert!(expect_actor && a.seen == s.seen),
                None => assert!(!expect_actor),
            }
            match e {
                Some(e) => assert!(failed && e == s.err),
                None => assert!(!failed),
            }
        }
    }
    kani::cover!(which == 3 && failed && s.has_actor);
    kani::cover!(which == 2 && s.completed);
}
