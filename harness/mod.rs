//! In-crate verification harnesses (compiled only under Kani or with feature verif-native).
pub mod common;
#[cfg(kani)]
pub mod c05;
#[cfg(kani)]
pub mod c06;
#[cfg(kani)]
pub mod sops;
#[cfg(kani)]
pub mod firstpoll;
#[cfg(all(feature = "verif-native", not(kani)))]
pub mod xval;
