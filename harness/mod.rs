//! In-crate verification harnesses (compiled only under Kani or with feature verif-native).
pub mod common;
pub mod probes;
#[cfg(kani)]
pub mod c05;
#[cfg(kani)]
pub mod c06;
