//! First-poll paths of the send functions under Kani (real Rust semantics, real types): each
//! future is polled exactly ONCE (CBMC cannot afford a second poll of a coroutine, DESIGN.md §8).
//! Covered in one poll: tell/ask on a free mailbox (accepted), on a closed mailbox (Err(Send) +
//! dead letter naming actor, message TYPE, operation, reason), *_with_timeout with d = 0 on a
//! full mailbox (the deadline has passed at the first poll: Err(Timeout), the only retryable
//! error, + dead letter), stop() on free/closed, is_retryable for every Error variant.
use super::common::*;
use std::panic as stdpanic;

fn poll_once<F: Future>(f: F) -> Poll<F::Output> {
    let mut f = pin!(f);
    let w = cx_noop();
    let mut cx = Context::from_waker(&w);
    f.as_mut().poll(&mut cx)
}

macro_rules! fp {
    ($name:ident, $body:block) => {
        #[kani::proof]
        #[kani::stub(stdpanic::catch_unwind, stub_catch)]
        #[kani::stub(std::fmt::format, stub_format)]
        #[kani::stub(crate::dead_letter::record, record_stub)]
        #[kani::unwind(16)]
        fn $name() $body
    };
}

fn dl(k: usize) -> (u8, u8, u64, bool) {
    unsafe { (DL_REASON[k], DL_OP[k], DL_ID[k], DL_MSG_OK[k]) }
}

fp!(fp_tell_free_and_closed, {
    let closed: bool = kani::any();
    let id: u8 = kani::any();
    let mut s = mk_sys(7, 1);
    if closed {
        s.mrx.close();
    }
    let r = poll_once(s.r.tell(Msg(id)));
    match r {
        Poll::Ready(Ok(())) => {
            assert!(!closed);
            assert!(ctr(mbox_id(&s)).len == 1 && unsafe { DL_N } == 0);
        }
        Poll::Ready(Err(Error::Send { identity, .. })) => {
            assert!(closed && identity.id == 7);
            assert!(ctr(mbox_id(&s)).len == 0);
            assert!(unsafe { DL_N } == 1 && dl(0) == (R_STOPPED, OP_TELL, 7, true));
        }
        _ => panic!("unexpected outcome of tell"),
    }
    kani::cover!(closed);
    kani::cover!(!closed);
    std::mem::forget(s);
});

fp!(fp_ask_closed_and_accepted, {
    let closed: bool = kani::any();
    let id: u8 = kani::any();
    let mut s = mk_sys(7, 1);
    if closed {
        s.mrx.close();
    }
    let r = poll_once(s.r.ask(Msg(id)));
    match r {
        Poll::Pending => {
            assert!(!closed && ctr(mbox_id(&s)).len == 1 && unsafe { DL_N } == 0);
        }
        Poll::Ready(Err(Error::Send { identity, .. })) => {
            assert!(closed && identity.id == 7);
            assert!(unsafe { DL_N } == 1 && dl(0) == (R_STOPPED, OP_ASK, 7, true));
        }
        _ => panic!("unexpected outcome of ask"),
    }
    kani::cover!(closed);
    kani::cover!(!closed);
    std::mem::forget(s);
});

fp!(fp_tell_timeout_zero_on_full, {
    let id: u8 = kani::any();
    let s = mk_sys(9, 1);
    let e = MailboxMessage::Envelope { payload: Box::new(Msg(200)), reply_channel: None, actor_ref: s.r.clone() };
    assert!(s.r.verif_sender().try_send(e).is_ok());
    let ok = match poll_once(s.r.tell_with_timeout(Msg(id), Duration::from_nanos(0))) {
        Poll::Ready(Err(e)) => e.is_retryable() && matches!(e, Error::Timeout { .. }),
        _ => false,
    };
    assert!(ok, "a zero timeout on a full mailbox must report Timeout at the first poll");
    assert!(tokio::time::timeouts_created() == 1 && tokio::time::last_timeout_ns() == 0);
    assert!(unsafe { DL_N } == 1 && dl(0) == (R_TIMEOUT, OP_TELL, 9, true));
    // the timed-out message is not in the mailbox and nobody is queued for a slot
    assert!(ctr(mbox_id(&s)).len == 1 && ctr(mbox_id(&s)).wlen == 0 && ctr(mbox_id(&s)).glen == 0);
    std::mem::forget(s);
});

fp!(fp_stop_free_and_closed, {
    let closed: bool = kani::any();
    let mut s = mk_sys(3, 1);
    if closed {
        s.mrx.close();
    }
    match poll_once(s.r.stop()) {
        Poll::Ready(Ok(())) => {
            assert!(ctr(mbox_id(&s)).len == if closed { 0 } else { 1 });
            assert!(unsafe { DL_N } == 0);
        }
        _ => panic!("stop() must succeed at once on a free or closed mailbox"),
    }
    kani::cover!(closed);
    std::mem::forget(s);
});

#[kani::proof]
#[kani::stub(std::fmt::format, stub_format)]
fn fp_is_retryable_iff_timeout() {
    let k: u8 = kani::any();
    kani::assume(k < 6);
    let idn = Identity::new(kani::any(), "T");
    let e = match k {
        0 => Error::Send { identity: idn, details: String::new() },
        1 => Error::Receive { identity: idn, details: String::new() },
        2 => Error::Timeout { identity: idn, timeout: Duration::from_nanos(kani::any::<u32>() as u64), operation: String::new() },
        3 => Error::Downcast { identity: idn, expected_type: String::new() },
        4 => Error::Runtime { identity: idn, details: String::new() },
        _ => Error::MailboxCapacity { message: String::new() },
    };
    assert!(e.is_retryable() == (k == 2));
    kani::cover!(k == 2);
    kani::cover!(k == 5);
}
