//! Shared harness plumbing: Kani stubs, scripted actors, observation statics.
//!
//! Everything here is harness code; the code under verification is the rest of the crate.
pub use crate::*;
pub use std::future::Future;
pub use std::pin::{pin, Pin};
pub use std::task::{Context, Poll};
pub use std::time::Duration;
pub use tokio::sync::mpsc::{ctr, Receiver};

pub type Res<T> = std::result::Result<T, crate::Error>;

// ---- stubs -------------------------------------------------------------------------------
pub fn stub_format(_a: std::fmt::Arguments<'_>) -> String {
    String::new()
}
pub fn stub_catch<F: FnOnce() -> R + std::panic::UnwindSafe, R>(f: F) -> std::thread::Result<R> {
    Ok(f())
}

/// Observation log filled by the `dead_letter::record` stub.
pub static mut DL_N: usize = 0;
pub static mut DL_REASON: [u8; 4] = [0; 4];
pub static mut DL_OP: [u8; 4] = [0; 4];
pub static mut DL_ID: [u64; 4] = [0; 4];
pub static mut DL_MSG_OK: [bool; 4] = [false; 4];
pub const R_STOPPED: u8 = 1;
pub const R_TIMEOUT: u8 = 2;
pub const R_REPLY: u8 = 3;
pub const OP_TELL: u8 = 1;
pub const OP_ASK: u8 = 2;
pub const OP_BTELL: u8 = 3;
pub const OP_BASK: u8 = 4;
pub const OP_OTHER: u8 = 9;
fn str_is(a: &str, b: &[u8]) -> bool {
    let a = a.as_bytes();
    if a.len() != b.len() {
        return false;
    }
    let mut i = 0;
    while i < b.len() {
        if a[i] != b[i] {
            return false;
        }
        i += 1;
    }
    true
}
pub fn op_code(op: &str) -> u8 {
    if str_is(op, b"tell") {
        OP_TELL
    } else if str_is(op, b"ask") {
        OP_ASK
    } else if str_is(op, b"blocking_tell") {
        OP_BTELL
    } else if str_is(op, b"blocking_ask") {
        OP_BASK
    } else {
        OP_OTHER
    }
}
/// replacement body for `dead_letter::record::<M>` (same signature) that logs the call
pub fn record_stub<M: 'static>(identity: Identity, reason: crate::dead_letter::DeadLetterReason, operation: &'static str) {
    use crate::dead_letter::DeadLetterReason as R;
    unsafe {
        let k = DL_N;
        if k < 4 {
            DL_REASON[k] = match reason {
                R::ActorStopped => R_STOPPED,
                R::Timeout => R_TIMEOUT,
                R::ReplyDropped => R_REPLY,
            };
            DL_OP[k] = op_code(operation);
            DL_ID[k] = identity.id;
            DL_MSG_OK[k] = std::any::TypeId::of::<M>() == std::any::TypeId::of::<Msg>();
        }
        DL_N += 1;
    }
}

// ---- scripted actor ----------------------------------------------------------------------
/// reply function: every request id has its own reply value
pub fn reply_of(id: u8) -> u8 {
    id ^ 0x5A
}
pub static mut H_N: usize = 0;
pub static mut H_LOG: [u8; 4] = [0; 4];
pub static mut TELL_RESULTS: usize = 0;
pub static mut TELL_RESULT_LAST: u8 = 0;
pub fn handled() -> usize {
    unsafe { H_N }
}
pub fn handled_at(i: usize) -> u8 {
    unsafe { H_LOG[i] }
}
pub struct T1 {
    pub seen: u8,
}
impl Actor for T1 {
    type Args = ();
    type Error = u8;
    async fn on_start(_: (), _: &ActorRef<Self>) -> std::result::Result<Self, u8> {
        Ok(T1 { seen: 0 })
    }
}
pub struct Msg(pub u8);
impl Message<Msg> for T1 {
    type Reply = u8;
    async fn handle(&mut self, m: Msg, _: &ActorRef<Self>) -> u8 {
        self.seen = self.seen.wrapping_add(1);
        unsafe {
            if H_N < 4 {
                H_LOG[H_N] = m.0;
            }
            H_N += 1;
        }
        reply_of(m.0)
    }
    fn on_tell_result(result: &u8, _actor_ref: &ActorRef<Self>) {
        unsafe {
            TELL_RESULTS += 1;
            TELL_RESULT_LAST = *result;
        }
    }
}
/// message whose handler "spawns" a task and returns its JoinHandle (for ask_join)
pub struct Spawning(pub u8);
impl Message<Spawning> for T1 {
    type Reply = tokio::task::JoinHandle<u8>;
    async fn handle(&mut self, _m: Spawning, _: &ActorRef<Self>) -> tokio::task::JoinHandle<u8> {
        self.seen = self.seen.wrapping_add(1);
        tokio::task::model_new_task::<u8>()
    }
}

pub struct Sys {
    pub r: ActorRef<T1>,
    pub mrx: Receiver<MailboxMessage<T1>>,
    pub trx: Receiver<ControlSignal>,
    pub actor: T1,
}
/// An actor's two channels and a strong reference, without a lifecycle task: the harness
/// plays the receiving side.
pub fn mk_sys(id: u64, cap: usize) -> Sys {
    let (mailbox_tx, mrx) = tokio::sync::mpsc::channel(cap);
    let (terminate_tx, trx) = tokio::sync::mpsc::channel::<ControlSignal>(1);
    #[cfg(feature = "metrics")]
    let r: ActorRef<T1> = ActorRef::new(Identity::new(id, "T1"), mailbox_tx, terminate_tx, std::sync::Arc::new(crate::metrics::MetricsCollector::new()));
    #[cfg(not(feature = "metrics"))]
    let r: ActorRef<T1> = ActorRef::new(Identity::new(id, "T1"), mailbox_tx, terminate_tx);
    Sys { r, mrx, trx, actor: T1 { seen: 0 } }
}
pub fn mbox_id(s: &Sys) -> u8 {
    s.mrx.model_id()
}
pub fn term_id(s: &Sys) -> u8 {
    s.trx.model_id()
}
pub fn cx_noop() -> std::task::Waker {
    tokio::exec::noop_waker()
}
/// Receiving side, one step: take the next mailbox entry (if any) and either run its handler
/// to completion (the scripted handlers never yield) or destroy it unhandled.
/// Returns 0 = nothing taken, 1 = envelope handled, 2 = envelope dropped, 3 = stop marker.
pub fn env_take(s: &mut Sys, handle_it: bool) -> u8 {
    match s.mrx.try_recv() {
        Ok(MailboxMessage::Envelope { payload, reply_channel, actor_ref }) => {
            if handle_it {
                let w = cx_noop();
                let mut cx = Context::from_waker(&w);
                let mut f = payload.handle_message(&mut s.actor, actor_ref, reply_channel);
                assert!(f.as_mut().poll(&mut cx).is_ready());
                1
            } else {
                drop(payload);
                drop(reply_channel);
                drop(actor_ref);
                2
            }
        }
        Ok(MailboxMessage::StopGracefully(_)) => 3,
        Err(_) => 0,
    }
}
