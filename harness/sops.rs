//! S family: ONE client operation (tell / tell_with_timeout / ask / ask_with_timeout) against an
//! actor whose receiving side is played by the harness.  The mailbox pre-state is enumerated
//! (free / full / closed), everything else is symbolic: the message id, the timeout, the
//! schedule of {poll the operation, receiver takes+handles, receiver takes+destroys, receiver
//! goes away, clock tick of symbolic length}.
//!
//! After every poll the result is compared with a decision table computed from the model
//! state (`expect_*`).  The const parameter P selects which property's assertions are active,
//! so that a failure is attributed to the property it belongs to:
//!   P=1  C01  accepted at most once / rejected never handled
//!   P=9  C09  waits iff no slot is free; occupancy <= capacity
//!   P=10 C10  timeout exactness
//!   P=13 C13  dead-letter accounting
//!   P=3  C03  reply integrity / ask completes when the actor side goes away
use super::common::*;
use std::panic as stdpanic;

pub const K_STEPS: usize = 4;

#[derive(Clone, Copy, PartialEq, Eq)]
pub enum Pre {
    Free,
    Full,
    Closed,
}
#[derive(Clone, Copy, PartialEq, Eq)]
pub enum Kind {
    Tell,
    TellT,
    Ask,
    AskT,
}
// result codes
pub const OK: u8 = 0;
pub const E_SEND: u8 = 1;
pub const E_TIMEOUT: u8 = 2;
pub const E_RECEIVE: u8 = 3;
pub const E_OTHER: u8 = 4;
fn code<T>(r: &Res<T>) -> u8 {
    match r {
        Ok(_) => OK,
        Err(Error::Send { .. }) => E_SEND,
        Err(Error::Timeout { .. }) => E_TIMEOUT,
        Err(Error::Receive { .. }) => E_RECEIVE,
        Err(_) => E_OTHER,
    }
}

fn count_handled(from: usize, id: u8) -> usize {
    let mut n = 0;
    let mut i = 0;
    while i < 4 {
        if i >= from && i < handled() && handled_at(i) == id {
            n += 1;
        }
        i += 1;
    }
    n
}

struct Obs {
    start: Option<u64>,
    done: Option<(u8, u8)>, // (code, value)
    done_at: u64,
}

/// Everything the decision table needs, read from the model before a poll.
struct Before {
    closed: bool,
    free: usize,
    pushed: usize,
    now: u64,
    reply_ready: bool,
    reply_lost: bool,
}

fn scenario<const P: u8, F: Future<Output = (u8, u8)>>(kind: Kind, pre: Pre, id: u8, d_ns: u64, s: &mut Sys, fut: F) {
    let is_ask = matches!(kind, Kind::Ask | Kind::AskT);
    let has_timeout = matches!(kind, Kind::TellT | Kind::AskT);
    let mid = mbox_id(s);
    let my_os = tokio::sync::oneshot::oneshots_created(); // the oneshot an ask will create gets this id
    let pushed0 = ctr(mid).pushed;
    let handled0 = handled();
    let mut fut = pin!(fut);
    let w = cx_noop();
    let mut cx = Context::from_waker(&w);
    let mut obs = Obs { start: None, done: None, done_at: 0 };
    let mut accepted = false;
    let mut step = 0;
    // K symbolic steps, then a deterministic drain (poll, take+handle, poll)
    while step < K_STEPS + 5 {
        // K symbolic steps, then the drain: poll, take+handle, poll, take+handle, poll
        let act: u8 = if step < K_STEPS { kani::any() } else if (step - K_STEPS) % 2 == 1 { 1 } else { 0 };
        kani::assume(act < 5);
        match act {
            0 => {
                if obs.done.is_none() {
                    let b = Before {
                        closed: ctr(mid).closed,
                        free: ctr(mid).free,
                        pushed: ctr(mid).pushed,
                        now: tokio::time::now_ns(),
                        reply_ready: is_ask && accepted && tokio::sync::oneshot::model_has_value(my_os as u8),
                        reply_lost: is_ask && accepted && tokio::sync::oneshot::model_tx_dropped(my_os as u8) && !tokio::sync::oneshot::model_has_value(my_os as u8),
                    };
                    if obs.start.is_none() {
                        obs.start = Some(b.now);
                    }
                    let deadline = obs.start.unwrap().saturating_add(d_ns);
                    let was_first = obs.start == Some(b.now) && !accepted && ctr(mid).wlen == 0 && ctr(mid).glen == 0;
                    let granted_before = ctr(mid).glen > 0;
                    let r = fut.as_mut().poll(&mut cx);
                    let now_accepted = ctr(mid).pushed == b.pushed + 1;
                    if now_accepted {
                        accepted = true;
                    }
                    match r {
                        Poll::Ready((c, v)) => {
                            obs.done = Some((c, v));
                            obs.done_at = b.now;
                            // ---- decision table, Ready side ----
                            if P == 10 {
                                if c == E_TIMEOUT {
                                    assert!(has_timeout, "timeout error from an operation without timeout");
                                    assert!(b.now >= deadline, "C10: Err(Timeout) before the deadline");
                                    // a timeout never masks another outcome that was available at this poll
                                    if !is_ask {
                                        assert!(!b.closed && !now_accepted);
                                    } else {
                                        assert!(!b.reply_ready && !b.reply_lost && !(b.closed && !accepted));
                                    }
                                }
                                if c == E_SEND {
                                    assert!(b.closed);
                                }
                                if c == E_RECEIVE {
                                    assert!(is_ask && b.reply_lost);
                                }
                                assert!(c != E_OTHER);
                            }
                            if P == 3 && is_ask {
                                if c == OK {
                                    assert!(v == reply_of(id), "C03: reply does not belong to the request");
                                    assert!(count_handled(handled0, id) == 1, "C03: Ok without the handler having run exactly once");
                                }
                                if c == E_RECEIVE {
                                    assert!(b.reply_lost);
                                }
                            }
                            if P == 1 {
                                if c == OK && !is_ask {
                                    assert!(accepted, "C01: tell returned Ok but nothing was enqueued");
                                }
                                if c == E_SEND || (c == E_TIMEOUT && !is_ask) {
                                    assert!(!accepted, "C01: rejected operation left a message in the mailbox");
                                }
                            }
                        }
                        Poll::Pending => {
                            // ---- decision table, Pending side ----
                            if P == 10 && has_timeout {
                                assert!(b.now < deadline, "C10: still pending at/after the deadline");
                            }
                            if P == 10 || P == 3 {
                                // a failure that is not a timeout is reported as soon as it occurs
                                assert!(!(b.closed && !accepted), "pending on a closed mailbox");
                                assert!(!b.reply_lost, "pending although the reply was dropped");
                                assert!(!b.reply_ready, "pending although the reply is there");
                            }
                            if P == 9 {
                                // never waits while a slot is free / a permit was granted to it
                                if !accepted {
                                    assert!(!(was_first && b.free > 0), "C09: waits although a slot is free");
                                    assert!(!granted_before, "C09: waits although its permit was granted");
                                } else {
                                    assert!(is_ask);
                                }
                            }
                        }
                    }
                }
            }
            1 => {
                env_take(s, true);
            }
            2 => {
                env_take(s, false);
            }
            3 => {
                s.mrx.close();
                // the actor side goes away: every queued envelope is destroyed
                let mut k = 0;
                while k < 3 {
                    env_take(s, false);
                    k += 1;
                }
            }
            _ => {
                let dt: u8 = kani::any();
                kani::assume(dt <= 3);
                tokio::time::advance_ns(dt as u64);
            }
        }
        if P == 9 {
            assert!(ctr(mid).len <= ctr(mid).cap && ctr(mid).max_len <= ctr(mid).cap, "C09: occupancy above capacity");
        }
        step += 1;
    }
    // ---- end-of-scenario obligations ----
    let pushed = ctr(mid).pushed - pushed0;
    if P == 1 {
        assert!(pushed <= 1, "C01: one operation enqueued more than one message");
        let n = count_handled(handled0, id);
        assert!(n <= 1, "C01: handled more than once");
        if let Some((c, _)) = obs.done {
            if c == E_SEND || (c == E_TIMEOUT && !is_ask) {
                assert!(n == 0, "C01: a rejected tell / Err(Send) ask was handled");
            }
        }
    }
    if P == 13 {
        let n = unsafe { DL_N };
        match obs.done {
            Some((c, _)) => {
                if c == OK {
                    assert!(n == 0, "C13: dead letter recorded for a successful operation");
                } else {
                    assert!(n == 1, "C13: not exactly one dead letter for a failed delivery");
                    let (reason, op, rid, msg_ok) = unsafe { (DL_REASON[0], DL_OP[0], DL_ID[0], DL_MSG_OK[0]) };
                    assert!(rid == s.r.identity().id, "C13: dead letter names another actor");
                    assert!(msg_ok, "C13: dead letter names another message type");
                    assert!(op == if is_ask { OP_ASK } else { OP_TELL }, "C13: wrong operation label");
                    assert!(reason == match c { E_SEND => R_STOPPED, E_TIMEOUT => R_TIMEOUT, _ => R_REPLY }, "C13: reason does not match the returned error");
                }
            }
            None => assert!(n == 0, "C13: dead letter recorded while the operation is still pending"),
        }
    }
    if P == 10 {
        if has_timeout {
            assert!(tokio::time::timeouts_created() <= 1);
            if obs.start.is_some() {
                assert!(tokio::time::timeouts_created() == 1 && tokio::time::last_timeout_ns() == d_ns, "C10: the timeout handed to the timer is not the caller's");
            }
        } else {
            assert!(tokio::time::timeouts_created() == 0);
        }
    }
    if P == 3 && is_ask {
        // quiescence: the drain polled the op, let the receiver handle everything, polled again.
        // If the message was accepted and the receiver is still there it was handled => done.
        // If the receiver went away => done with an error.  Only "never accepted, mailbox full
        // and nobody takes" may remain pending, and the drain's take rules that out.
        assert!(obs.done.is_some(), "C03: ask still pending at quiescence");
    }
    // reachability witnesses
    if pre != Pre::Closed {
        kani::cover!(matches!(obs.done, Some((OK, _))));
    }
    if (kind == Kind::TellT && pre == Pre::Full) || (kind == Kind::AskT && pre != Pre::Closed) {
        kani::cover!(matches!(obs.done, Some((E_TIMEOUT, _))));
    }
    if pre == Pre::Closed {
        kani::cover!(matches!(obs.done, Some((E_SEND, _))));
    }
    if is_ask && pre != Pre::Closed {
        kani::cover!(matches!(obs.done, Some((E_RECEIVE, _))));
    }
}

pub fn run<const P: u8>(kind: Kind, pre: Pre) {
    let mut s = mk_sys(7, 1);
    match pre {
        Pre::Free => {}
        Pre::Full => {
            let e = MailboxMessage::Envelope { payload: Box::new(Msg(200)), reply_channel: None, actor_ref: s.r.clone() };
            assert!(s.r.verif_sender().try_send(e).is_ok());
        }
        Pre::Closed => s.mrx.close(),
    }
    let id: u8 = kani::any();
    kani::assume(id < 100);
    let d: u8 = kani::any();
    kani::assume(d <= 4);
    let d_ns = d as u64;
    let r = s.r.clone();
    match kind {
        Kind::Tell => scenario::<P, _>(kind, pre, id, d_ns, &mut s, async move {
            let x = r.tell(Msg(id)).await;
            (code(&x), 0)
        }),
        Kind::TellT => scenario::<P, _>(kind, pre, id, d_ns, &mut s, async move {
            let x = r.tell_with_timeout(Msg(id), Duration::from_nanos(d_ns)).await;
            (code(&x), 0)
        }),
        Kind::Ask => scenario::<P, _>(kind, pre, id, d_ns, &mut s, async move {
            let x = r.ask(Msg(id)).await;
            (code(&x), x.unwrap_or(0))
        }),
        Kind::AskT => scenario::<P, _>(kind, pre, id, d_ns, &mut s, async move {
            let x = r.ask_with_timeout(Msg(id), Duration::from_nanos(d_ns)).await;
            (code(&x), x.unwrap_or(0))
        }),
    }
    std::mem::forget(s);
}

macro_rules! sop {
    ($name:ident, $p:expr, $kind:expr, $pre:expr) => {
        #[cfg(kani)]
        #[kani::proof]
        #[kani::stub(stdpanic::catch_unwind, stub_catch)]
        #[kani::stub(std::fmt::format, stub_format)]
        #[kani::stub(crate::dead_letter::record, record_stub)]
        #[kani::unwind(11)]
        fn $name() {
            run::<$p>($kind, $pre)
        }
    };
}
macro_rules! sop_all {
    ($p:expr, $($name:ident: $kind:expr, $pre:expr;)*) => { $( sop!($name, $p, $kind, $pre); )* };
}
pub mod c01 {
    use super::*;
    sop_all!(1,
        tell_free: Kind::Tell, Pre::Free; tell_full: Kind::Tell, Pre::Full; tell_closed: Kind::Tell, Pre::Closed;
        tellt_free: Kind::TellT, Pre::Free; tellt_full: Kind::TellT, Pre::Full; tellt_closed: Kind::TellT, Pre::Closed;
        ask_free: Kind::Ask, Pre::Free; ask_full: Kind::Ask, Pre::Full; ask_closed: Kind::Ask, Pre::Closed;
        askt_full: Kind::AskT, Pre::Full;
    );
}
pub mod c03 {
    use super::*;
    sop_all!(3,
        ask_free: Kind::Ask, Pre::Free; ask_full: Kind::Ask, Pre::Full; ask_closed: Kind::Ask, Pre::Closed;
        askt_free: Kind::AskT, Pre::Free; askt_full: Kind::AskT, Pre::Full;
    );
}
pub mod c09 {
    use super::*;
    sop_all!(9,
        tell_free: Kind::Tell, Pre::Free; tell_full: Kind::Tell, Pre::Full;
        ask_free: Kind::Ask, Pre::Free; ask_full: Kind::Ask, Pre::Full;
        tellt_full: Kind::TellT, Pre::Full;
    );
}
pub mod c10 {
    use super::*;
    sop_all!(10,
        tellt_free: Kind::TellT, Pre::Free; tellt_full: Kind::TellT, Pre::Full; tellt_closed: Kind::TellT, Pre::Closed;
        askt_free: Kind::AskT, Pre::Free; askt_full: Kind::AskT, Pre::Full; askt_closed: Kind::AskT, Pre::Closed;
        tell_full: Kind::Tell, Pre::Full; ask_free: Kind::Ask, Pre::Free;
    );
}
pub mod c13 {
    use super::*;
    sop_all!(13,
        tell_free: Kind::Tell, Pre::Free; tell_full: Kind::Tell, Pre::Full; tell_closed: Kind::Tell, Pre::Closed;
        tellt_free: Kind::TellT, Pre::Free; tellt_full: Kind::TellT, Pre::Full; tellt_closed: Kind::TellT, Pre::Closed;
        ask_free: Kind::Ask, Pre::Free; ask_full: Kind::Ask, Pre::Full; ask_closed: Kind::Ask, Pre::Closed;
        askt_free: Kind::AskT, Pre::Free; askt_full: Kind::AskT, Pre::Full; askt_closed: Kind::AskT, Pre::Closed;
    );
}
