"""Parser for rustc's textual MIR (the `-Zdump-mir` pretty printer), restricted to what the
dumps of this crate contain.  Anything that does not parse raises MirUnsupported, which the
driver reports as *inconclusive* (never as a verdict)."""
import os
import re


class MirUnsupported(Exception):
    pass


# ------------------------------------------------------------------ low-level text helpers
OPEN = "([{<"
CLOSE = ")]}>"
PAIR = {")": "(", "]": "[", "}": "{", ">": "<"}


def split_top(s, sep=","):
    """split on `sep` at bracket depth 0 (angle brackets count, `->` does not close one)"""
    out, depth, cur, i, n = [], 0, [], 0, len(s)
    instr = False
    while i < n:
        c = s[i]
        if instr:
            cur.append(c)
            if c == "\\":
                cur.append(s[i + 1])
                i += 1
            elif c == '"':
                instr = False
        elif c == '"':
            instr = True
            cur.append(c)
        elif c in "([{":
            depth += 1
            cur.append(c)
        elif c in ")]}":
            depth -= 1
            cur.append(c)
        elif c == "<":
            depth += 1
            cur.append(c)
        elif c == ">":
            if i > 0 and s[i - 1] in "-=":
                cur.append(c)        # `->` / `=>`
            else:
                depth -= 1
                cur.append(c)
        elif depth == 0 and s.startswith(sep, i):
            out.append("".join(cur).strip())
            cur = []
            i += len(sep) - 1
        else:
            cur.append(c)
        i += 1
    tail = "".join(cur).strip()
    if tail or out:
        out.append(tail)
    return [x for x in out if x != ""] if sep == "," else out


def match_close(s, i):
    """s[i] is an opening bracket; return index of its closing partner"""
    depth = 0
    instr = False
    n = len(s)
    j = i
    while j < n:
        c = s[j]
        if instr:
            if c == "\\":
                j += 1
            elif c == '"':
                instr = False
        elif c == '"':
            instr = True
        elif c in "([{":
            depth += 1
        elif c in ")]}":
            depth -= 1
            if depth == 0:
                return j
        elif c == "<" and s[i] == "<":
            depth += 1
        elif c == ">" and s[i] == "<" and s[j - 1] not in "-=":
            depth -= 1
            if depth == 0:
                return j
        j += 1
    raise MirUnsupported("unbalanced: " + s[:80])


def strip_generics(path):
    """remove turbofish groups `::<...>` and type-argument groups `Ident<...>`; keep a leading
    qualified-path bracket `<T as Trait>`"""
    out = []
    i = 0
    n = len(path)
    while i < n:
        c = path[i]
        if c == "<" and i > 0 and (path[i - 1].isalnum() or path[i - 1] == "_"):
            i = match_close(path, i) + 1
            continue
        if c == "<" and i > 1 and path[i - 2:i] == "::":
            i = match_close(path, i) + 1
            del out[-2:]
            continue
        out.append(c)
        i += 1
    return "".join(out)


# ------------------------------------------------------------------ AST
class Place:
    __slots__ = ("local", "proj")

    def __init__(self, local, proj):
        self.local = local          # int
        self.proj = proj            # list of ('deref',) ('field', i) ('downcast', name) ('index', local) ('cindex', i, from_end)

    def __repr__(self):
        return "Place(_%d%s)" % (self.local, "".join("." + "/".join(map(str, p)) for p in self.proj))


class Operand:
    __slots__ = ("kind", "place", "const")

    def __init__(self, kind, place=None, const=None):
        self.kind = kind            # 'copy' 'move' 'const'
        self.place = place
        self.const = const          # Const

    def __repr__(self):
        return "%s %s" % (self.kind, self.place if self.place is not None else self.const)


class Const:
    __slots__ = ("kind", "value", "ty", "text")

    def __init__(self, kind, value=None, ty=None, text=""):
        self.kind = kind            # 'int' 'bool' 'unit' 'str' 'fn' 'alloc' 'zst' 'other' 'char' 'float' 'bytes'
        self.value = value
        self.ty = ty
        self.text = text

    def __repr__(self):
        return "Const(%s,%r,%s)" % (self.kind, self.value, self.ty)


class Rvalue:
    __slots__ = ("kind", "a", "b", "c", "text")

    def __init__(self, kind, a=None, b=None, c=None, text=""):
        self.kind, self.a, self.b, self.c, self.text = kind, a, b, c, text

    def __repr__(self):
        return "Rvalue(%s %r %r %r)" % (self.kind, self.a, self.b, self.c)


class Stmt:
    __slots__ = ("kind", "place", "rv", "text")

    def __init__(self, kind, place=None, rv=None, text=""):
        self.kind, self.place, self.rv, self.text = kind, place, rv, text


class Term:
    __slots__ = ("kind", "a", "b", "targets", "unwind", "dest", "text", "callee", "args")

    def __init__(self, kind, text=""):
        self.kind = kind
        self.a = self.b = None
        self.targets = None
        self.unwind = None
        self.dest = None
        self.callee = None
        self.args = None
        self.text = text


class Block:
    __slots__ = ("idx", "stmts", "term", "cleanup")

    def __init__(self, idx, cleanup):
        self.idx, self.cleanup, self.stmts, self.term = idx, cleanup, [], None


class Body:
    def __init__(self):
        self.name = ""          # def path from the `// MIR for` comment
        self.header = ""
        self.arg_count = 0
        self.arg_types = []
        self.ret_type = ""
        self.local_types = {}
        self.blocks = {}
        self.is_coroutine = False
        self.allocs = {}        # alloc id -> {'static': name or None, 'bytes': bytes or None}
        self.file = ""
        self.uid = ""


INT_TYPES = {"u8": (8, False), "u16": (16, False), "u32": (32, False), "u64": (64, False), "u128": (128, False),
             "usize": (64, False), "i8": (8, True), "i16": (16, True), "i32": (32, True), "i64": (64, True),
             "i128": (128, True), "isize": (64, True)}

_place_cache = {}


def parse_place(s):
    s = s.strip()
    if s in _place_cache:
        return _place_cache[s]
    p = _parse_place(s)
    _place_cache[s] = p
    return p


def _parse_place(s):
    # grammar: _N | (*P) | (P.N: T) | (P as V) | P[_N] | P[N of M] | P[-N of M]
    i = 0
    n = len(s)

    def parse(i):
        if s[i] == "_":
            j = i + 1
            while j < n and s[j].isdigit():
                j += 1
            pl = (int(s[i + 1:j]), [])
            i = j
        elif s[i] == "(":
            j = match_close(s, i)
            inner = s[i + 1:j]
            pl = parse_inner(inner)
            i = j + 1
        else:
            raise MirUnsupported("place: " + s)
        # postfix index
        while i < n and s[i] == "[":
            j = match_close(s, i)
            idx = s[i + 1:j]
            m = re.match(r"^_(\d+)$", idx)
            if m:
                pl = (pl[0], pl[1] + [("index", int(m.group(1)))])
            else:
                m = re.match(r"^(-?)(\d+) of (\d+)$", idx)
                if not m:
                    raise MirUnsupported("index proj: " + s)
                pl = (pl[0], pl[1] + [("cindex", int(m.group(2)), m.group(1) == "-")])
            i = j + 1
        return pl, i

    def parse_inner(inner):
        inner = inner.strip()
        if inner.startswith("*"):
            pl, k = parse_str(inner[1:].strip())
            return (pl[0], pl[1] + [("deref",)])
        # (P.N: T)  or (P as V)
        pl, k = parse_str(inner)
        rest = inner[k:].strip()
        if rest.startswith("as "):
            return (pl[0], pl[1] + [("downcast", rest[3:].strip())])
        m = re.match(r"^\.(\d+)\s*:", rest)
        if m:
            return (pl[0], pl[1] + [("field", int(m.group(1)))])
        if rest == "":
            return pl
        raise MirUnsupported("place inner: " + inner)

    def parse_str(t):
        nonlocal s, n
        saved = (s, n)
        s, n = t, len(t)
        try:
            r = parse(0)
        finally:
            s, n = saved
        return r

    pl, k = parse(0)
    if s[k:].strip():
        raise MirUnsupported("place tail: " + s)
    return Place(pl[0], pl[1])


def parse_const(t):
    t = t.strip()
    if t in ("()",):
        return Const("unit", (), "()")
    if t in ("true", "false"):
        return Const("bool", t == "true", "bool")
    m = re.match(r"^(-?\d+)_([iu](?:8|16|32|64|128|size))$", t)
    if m:
        return Const("int", int(m.group(1)), m.group(2))
    m = re.match(r'^"((?:[^"\\]|\\.)*)"$', t, re.S)
    if m:
        return Const("str", bytes(m.group(1), "utf-8").decode("unicode_escape"), "&str")
    m = re.match(r'^b"((?:[^"\\]|\\.)*)"$', t, re.S)
    if m:
        return Const("bytes", m.group(1), "&[u8]")
    m = re.match(r"^'(.*)'$", t)
    if m:
        return Const("char", m.group(1), "char")
    m = re.match(r"^\{(alloc\d+)(?:\+0x[0-9a-f]+)?: (.*)\}$", t)
    if m:
        return Const("alloc", m.group(1), m.group(2))
    m = re.match(r"^(-?[0-9.]+(?:[eE][-+]?\d+)?)(f32|f64)$", t)
    if m:
        return Const("float", float(m.group(1)), m.group(2))
    # zero-sized fn item / unit struct / promoted / other
    return Const("path", t, None, t)


def parse_operand(t):
    t = t.strip()
    if t.startswith("copy "):
        return Operand("copy", parse_place(t[5:]))
    if t.startswith("move "):
        return Operand("move", parse_place(t[5:]))
    if t.startswith("const "):
        return Operand("const", const=parse_const(t[6:]))
    if re.match(r"^(_\d|\()", t):
        return Operand("copy", parse_place(t))
    # a bare path: function item / unit struct used as a value (zero-sized constant)
    if re.match(r"^[<\w]", t):
        return Operand("const", const=parse_const(t))
    raise MirUnsupported("operand: " + t)


BINOPS = {"Add", "Sub", "Mul", "Div", "Rem", "BitXor", "BitAnd", "BitOr", "Shl", "Shr", "Eq", "Lt", "Le", "Ne", "Ge", "Gt",
          "Offset", "Cmp", "AddWithOverflow", "SubWithOverflow", "MulWithOverflow", "AddUnchecked", "SubUnchecked",
          "MulUnchecked", "ShlUnchecked", "ShrUnchecked"}
UNOPS = {"Not", "Neg", "PtrMetadata"}


def parse_rvalue(t):
    t = t.strip()
    if t.startswith("no_retag "):
        t = t[len("no_retag "):]
    if t.startswith("&/*tls*/ "):
        return Rvalue("tls_ref", t[len("&/*tls*/ "):].strip())
    if t.startswith("&raw const ") or t.startswith("&raw mut "):
        return Rvalue("ref", parse_place(t.split(" ", 2)[2]), "raw")
    if t.startswith("&mut "):
        return Rvalue("ref", parse_place(t[5:]), "mut")
    if t.startswith("&fake shallow "):
        return Rvalue("ref", parse_place(t[14:]), "shared")
    if t.startswith("&fake "):
        return Rvalue("ref", parse_place(t[6:]), "shared")
    if t.startswith("&"):
        return Rvalue("ref", parse_place(t[1:]), "shared")
    m = re.match(r"^(\w+)\((.*)\)$", t, re.S)
    if m and m.group(1) in BINOPS:
        ops = split_top(m.group(2))
        return Rvalue("binop", m.group(1), parse_operand(ops[0]), parse_operand(ops[1]))
    if m and m.group(1) in UNOPS:
        return Rvalue("unop", m.group(1), parse_operand(m.group(2)))
    if m and m.group(1) == "discriminant":
        return Rvalue("discriminant", parse_place(m.group(2)))
    if m and m.group(1) == "Len":
        return Rvalue("len", parse_place(m.group(2)))
    if m and m.group(1) == "CopyForDeref":
        return Rvalue("use", Operand("copy", parse_place(m.group(2))))
    if m and m.group(1) == "ShallowInitBox":
        ops = split_top(m.group(2))
        return Rvalue("shallow_init_box", parse_operand(ops[0]))
    if m and m.group(1) in ("SizeOf", "AlignOf", "UbChecks", "ContractChecks", "OffsetOf"):
        return Rvalue("nullary", m.group(1), m.group(2))
    # cast:  OPERAND as TYPE (Kind)
    if (t.startswith("copy ") or t.startswith("move ") or t.startswith("const ")) and t.endswith(")"):
        parts = split_top(t, " as ")
        if len(parts) >= 2:
            rest = " as ".join(parts[1:])
            m = re.match(r"^(.*) \(([A-Za-z]+(?:\(.*\))?)\)$", rest, re.S)
            if m:
                return Rvalue("cast", parse_operand(parts[0]), m.group(1).strip(), m.group(2))
    if t.startswith("copy ") or t.startswith("move ") or t.startswith("const "):
        return Rvalue("use", parse_operand(t))
    # aggregates
    if t.startswith("(") and match_close(t, 0) == len(t) - 1:
        inner = t[1:-1].strip()
        ops = split_top(inner)
        if inner.endswith(",") or len(ops) != 1 or inner == "":
            return Rvalue("tuple", [parse_operand(o) for o in ops])
        return Rvalue("tuple", [parse_operand(o) for o in ops])
    if t == "()":
        return Rvalue("tuple", [])
    if t.startswith("[") and match_close(t, 0) == len(t) - 1:
        inner = t[1:-1]
        parts = split_top(inner, ";")
        if len(parts) == 2:
            return Rvalue("repeat", parse_operand(parts[0]), parts[1].strip())
        return Rvalue("array", [parse_operand(o) for o in split_top(inner)])
    if t.startswith("{closure@") or t.startswith("{coroutine@") or t.startswith("{async"):
        j = match_close(t, 0)
        name = t[:j + 1]
        rest = t[j + 1:].strip()
        fields = []
        if rest.startswith("{"):
            inner = rest[1:match_close(rest, 0)]
            for f in split_top(inner):
                k, v = f.split(":", 1)
                fields.append((k.strip(), parse_operand(v)))
        kind = "closure" if t.startswith("{closure@") else "coroutine"
        return Rvalue(kind, name, fields)
    # ADT aggregate:  Path { f: op, .. }  |  Path(op, ..)  |  Path
    m = re.match(r"^(.*?)\s*\{(.*)\}$", t, re.S)
    if m and not m.group(1).strip().endswith("::"):
        path = m.group(1).strip()
        if re.match(r"^[\w:<>,&' ()\[\];*+=\-!{}@./#]+$", path) and path:
            fields = []
            for f in split_top(m.group(2)):
                k, v = f.split(":", 1)
                fields.append((k.strip(), parse_operand(v)))
            return Rvalue("adt", path, fields)
    if t.endswith(")"):
        # find the opening paren matching the last char
        depth = 0
        i = len(t) - 1
        while i >= 0:
            c = t[i]
            if c == ")":
                depth += 1
            elif c == "(":
                depth -= 1
                if depth == 0:
                    break
            i -= 1
        path = t[:i].strip()
        ops = split_top(t[i + 1:-1])
        return Rvalue("adt", path, [(str(k), parse_operand(o)) for k, o in enumerate(ops)])
    if re.match(r"^[\w:<>,&' \[\];*+=\-!(){}#@./]+$", t) and not t.startswith("{"):
        return Rvalue("adt", t, [])
    raise MirUnsupported("rvalue: " + t)


def parse_targets(t):
    """'[return: bb1, unwind: bb2]' / 'unwind continue' / '[0: bb1, otherwise: bb2]' / 'bb3'"""
    t = t.strip()
    res = {}
    if t.startswith("["):
        inner = t[1:match_close(t, 0)]
        for part in split_top(inner):
            if part.startswith("unwind ") and ":" not in part:
                res["unwind"] = part[len("unwind "):].strip()
                continue
            k, v = part.split(":", 1)
            res[k.strip()] = v.strip()
    elif t.startswith("unwind"):
        res["unwind"] = t[len("unwind"):].strip()
    elif t.startswith("bb"):
        res["return"] = t
    return res


def bbnum(s):
    m = re.match(r"^bb(\d+)$", s.strip())
    return int(m.group(1)) if m else None


def parse_terminator(t):
    t = t.strip().rstrip(";")
    term = Term("", t)
    if t.startswith("goto -> "):
        term.kind = "goto"
        term.targets = [bbnum(t[8:])]
        return term
    if t == "return":
        term.kind = "return"
        return term
    if t == "unreachable":
        term.kind = "unreachable"
        return term
    if t in ("resume", "UnwindResume"):
        term.kind = "resume"
        return term
    if t.startswith("abort") or t.startswith("terminate") or t.startswith("UnwindTerminate"):
        term.kind = "abort"
        return term
    if t == "coroutine_drop":
        term.kind = "coroutine_drop"
        return term
    if t.startswith("switchInt("):
        j = match_close(t, len("switchInt"))
        term.kind = "switch"
        term.a = parse_operand(t[len("switchInt("):j])
        rest = t[j + 1:].strip()
        assert rest.startswith("->")
        tg = parse_targets(rest[2:])
        term.targets = [(None if k == "otherwise" else int(k.split("_")[0]), bbnum(v)) for k, v in tg.items()]
        return term
    if t.startswith("drop("):
        j = match_close(t, 4)
        term.kind = "drop"
        term.a = parse_place(t[5:j])
        rest = t[j + 1:].strip()
        tg = parse_targets(rest[2:].strip()) if rest.startswith("->") else {}
        term.targets = [bbnum(tg["return"])] if "return" in tg else [None]
        term.unwind = bbnum(tg.get("unwind", "")) if tg.get("unwind") else None
        return term
    if t.startswith("assert("):
        j = match_close(t, 6)
        inner = split_top(t[7:j])
        cond = inner[0].strip()
        expected = True
        if cond.startswith("!"):
            expected = False
            cond = cond[1:]
        term.kind = "assert"
        term.a = parse_operand(cond)
        term.b = expected
        rest = t[j + 1:].strip()
        tg = parse_targets(rest[2:].strip())
        term.targets = [bbnum(tg.get("success", ""))]
        term.unwind = bbnum(tg.get("unwind", "")) if tg.get("unwind") else None
        term.text = inner[1] if len(inner) > 1 else ""
        return term
    # assignment-style: DEST = yield(..) / DEST = callee(args) -> targets
    m = re.match(r"^(.*?) = (.*)$", t, re.S)
    if m:
        dest, rhs = m.group(1).strip(), m.group(2).strip()
        # split off the '-> ...' suffix at depth 0
        parts = split_top(rhs, " -> ")
        call = parts[0].strip()
        tg = parse_targets(parts[1]) if len(parts) > 1 else {}
        if call.startswith("yield("):
            term.kind = "yield"
            term.dest = parse_place(dest)
            term.a = parse_operand(call[6:match_close(call, 5)])
            term.targets = [bbnum(tg["resume"])]
            term.unwind = bbnum(tg.get("drop", "")) if tg.get("drop") else None
            return term
        # call: callee is everything up to the last top-level '(...)'
        if not call.endswith(")"):
            raise MirUnsupported("terminator: " + t)
        depth = 0
        i = len(call) - 1
        while i >= 0:
            c = call[i]
            if c == ")":
                depth += 1
            elif c == "(":
                depth -= 1
                if depth == 0:
                    break
            i -= 1
        term.kind = "call"
        term.dest = parse_place(dest)
        term.callee = call[:i].strip()
        term.args = [parse_operand(a) for a in split_top(call[i + 1:-1])]
        term.targets = [bbnum(tg["return"])] if "return" in tg else [None]
        uw = tg.get("unwind")
        term.unwind = bbnum(uw) if uw and uw.startswith("bb") else None
        if len(parts) > 1 and re.match(r"^bb\d+$", parts[1].strip()):
            # rustc prints a single unlabelled successor for a call only when the call DIVERGES and
            # has a cleanup block (target: None, unwind: Cleanup(bb)): `panic_fmt(..) -> bb16`
            term.targets = [None]
            term.unwind = bbnum(parts[1].strip())
        return term
    raise MirUnsupported("terminator: " + t)


def parse_statement(t):
    t = t.strip().rstrip(";")
    for kw in ("StorageLive(", "StorageDead(", "PlaceMention(", "FakeRead(", "Retag(", "AscribeUserType(", "Coverage::", "ConstEvalCounter", "nop", "BackwardIncompatibleDropHint("):
        if t.startswith(kw):
            if kw in ("StorageLive(", "StorageDead("):
                return Stmt(kw[:-1], parse_place(t[len(kw):-1]))
            return Stmt("nop")
    if t.startswith("Deinit("):
        return Stmt("deinit", parse_place(t[7:-1]))
    if t.startswith("assume("):
        return Stmt("assume", rv=parse_operand(t[7:-1]))
    if t.startswith("copy_nonoverlapping("):
        raise MirUnsupported("copy_nonoverlapping")
    m = re.match(r"^discriminant\((.*)\) = (\d+)$", t)
    if m:
        return Stmt("set_discriminant", parse_place(m.group(1)), int(m.group(2)))
    parts = split_top(t, " = ")
    if len(parts) >= 2:
        lhs = parts[0]
        rhs = " = ".join(parts[1:])
        return Stmt("assign", parse_place(lhs), parse_rvalue(rhs), t)
    raise MirUnsupported("statement: " + t)


_TERM_START = re.compile(r"^(goto -> |return$|unreachable$|resume$|UnwindResume$|abort|terminate|UnwindTerminate|coroutine_drop$|switchInt\(|drop\(|assert\()")


def is_terminator(t):
    t = t.strip().rstrip(";")
    if _TERM_START.match(t):
        return True
    # call / yield: has ' -> [' or ' -> unwind' or ' -> bb' at top level after an '='
    if " = " in t and (" -> [" in t or " -> unwind" in t or re.search(r" -> bb\d+$", t)):
        return True
    return False


def parse_body(path):
    text = open(path).read()
    b = Body()
    b.file = os.path.basename(path)
    m = re.search(r"^// MIR for `(.*?)` ", text, re.M)
    if m:
        b.name = m.group(1)
    lines = text.split("\n")
    i = 0
    n = len(lines)
    # `NAME::{constant#0}: <type> = {` is an anonymous (inline) constant: treated like `const`
    anon = re.compile(r"^[A-Za-z_<][^ ]*\{constant#\d+\}[^ ]*: ")
    while i < n and not lines[i].startswith("fn ") and not lines[i].startswith("const ") and not lines[i].startswith("static ") and not anon.match(lines[i]):
        i += 1
    if i >= n:
        raise MirUnsupported("no fn header in " + path)
    header = lines[i]
    if anon.match(header):
        header = "const " + header
    i += 1
    while i < n and not lines[i - 1].rstrip().endswith("{"):
        if lines[i].strip().startswith("yields"):
            b.is_coroutine = True
        header += " " + lines[i].strip()
        i += 1
    b.header = header
    if header.startswith("fn "):
        k = header.index("(")
        j = match_close(header, k)
        args = split_top(header[k + 1:j])
        b.arg_count = len(args)
        for a in args:
            nm, ty = a.split(":", 1)
            b.arg_types.append(ty.strip())
            b.local_types[int(nm.strip()[1:])] = ty.strip()
        rest = header[j + 1:]
        mm = re.match(r"^\s*->\s*(.*?)\s*(?:yields.*)?\{?\s*$", rest)
        b.ret_type = mm.group(1).strip() if mm else ""
        if "yields" in rest:
            b.is_coroutine = True
    cur = None
    while i < n:
        raw = lines[i]
        i += 1
        line = raw.strip()
        c = line.find(" // ")
        if c >= 0 and '"' not in line[c:]:
            line = line[:c].rstrip()
        elif line.startswith("//"):
            continue
        if not line:
            continue
        m = re.match(r"^let (?:mut )?_(\d+): (.*);$", line)
        if m and cur is None:
            b.local_types[int(m.group(1))] = m.group(2)
            continue
        m = re.match(r"^bb(\d+)( \(cleanup\))?: \{$", line)
        if m:
            cur = Block(int(m.group(1)), bool(m.group(2)))
            b.blocks[cur.idx] = cur
            continue
        if line == "}":
            if cur is not None:
                cur = None
            continue
        if cur is None:
            m = re.match(r"^(alloc\d+) \((.*)\) \{$", line)
            if m:
                meta = m.group(2)
                sm = re.search(r"static: ([\w:]+)", meta)
                data = bytearray()
                ok = True
                while i < n and lines[i].strip() != "}":
                    hm = re.match(r"^\s*0x[0-9a-f]+ │ (.*?) │", lines[i])
                    if hm:
                        for tok in hm.group(1).split():
                            if re.match(r"^[0-9a-f]{2}$", tok):
                                data.append(int(tok, 16))
                            else:
                                ok = False
                    i += 1
                b.allocs[m.group(1)] = {"static": sm.group(1) if sm else None, "bytes": bytes(data) if ok else None, "meta": meta}
            continue
        # statements may span several lines?  (the pretty printer keeps one per line)
        if is_terminator(line):
            cur.term = parse_terminator(line)
        else:
            cur.stmts.append(parse_statement(line))
    return b


def load_dir(d, suffix="StateTransform.before.mir"):
    bodies = {}
    errors = {}
    for f in sorted(os.listdir(d)):
        if not f.endswith(suffix):
            continue
        try:
            b = parse_body(os.path.join(d, f))
            # unique id from the file name (the pretty name of the header is ambiguous for impls
            # generated by one macro invocation: they all share the invocation's span)
            b.uid = f.split(".2-2-")[0] if ".2-2-" in f else f
            bodies[b.uid] = b
        except MirUnsupported as e:
            errors[f] = str(e)
        except Exception as e:  # parser bug: report as unsupported, with location
            errors[f] = "parser error: %r" % (e,)
    return bodies, errors


if __name__ == "__main__":
    import sys
    bodies, errors = load_dir(sys.argv[1])
    print(len(bodies), "bodies;", len(errors), "unparsed")
    for k, v in errors.items():
        print("  ", k, "->", v[:200])
