"""Scenario families (see props.py for the monitors).  Every function has the signature
`f(prog, ex, P, tier)`: build the system, run it to quiescence under the symbolic scheduler,
apply the monitors of property P."""
import z3
import time

from . import props as M
from .sim import Sim
from .values import *  # noqa: F401,F403
from .world import Script
from .mirparse import split_top
import re


def pick(ex, options, label):
    return options[ex.choose(len(options), label)]


def finish(ex, s):
    ex.steps = s.it.steps
    ex.sim = s
    if s.bound_hit:
        raise Unsupported("scheduler step bound hit before quiescence")
    return M.Trace(ex, s)


def allow_time(s, ex, n=1, max_ns=10 ** 10):
    """time may pass: as soon as the code under test has created any timer, the virtual clock may
    advance by a symbolic amount (<= 10 s) at any moment, at most n times.  Costs nothing while no
    timer exists (the guard is false), so it is enabled in the scenario families that have no
    clock of their own."""
    w = s.w
    left = [n]

    def can():
        return left[0] > 0 and len(w.deadlines) > 0 and any(t.state == "running" for t in w.tasks)

    def tick():
        left[0] -= 1
        dt = ex.sym("adt%d" % left[0], 64)
        ex.assume(z3.ULE(dt, max_ns))
        w.advance(dt)
    s.extra_actions.append((can, tick, "time-passes"))


MONITORS = {
    "C01": [M.mon_c01], "C02": [M.mon_c02], "C03": [M.mon_c03], "C04": [M.mon_c04], "C05": [M.mon_c05],
    "C06": [M.mon_c06], "C07": [M.mon_c07, M.mon_c07_work], "C08": [M.mon_c08], "C09": [M.mon_c09], "C13": [M.mon_c13],
    "C12": [M.mon_c04, M.mon_c05, M.mon_c03, M.mon_c01, M.mon_c02],
    "C19": [M.mon_c19_runtime],
    "C20": [M.mon_c20],
}


def apply(tr, P, **kw):
    for m in MONITORS.get(P, []):
        if m is M.mon_c13:
            m(tr)
        elif m is M.mon_c09:
            m(tr, "A", kw.get("cap"))
        else:
            m(tr)


# =====================================================================================
SENDERS_QUICK = [
    dict(cap=1, hy=0, cause="drop", c1=[("tell", "A", 1), ("ask", "A", 2)], c2=[("tell", "A", 3)]),
    dict(cap=1, hy=1, cause="drop", c1=[("tell", "A", 1), ("ask", "A", 2)], c2=[("tell", "A", 3)]),
    dict(cap=2, hy=0, cause="drop", c1=[("tell", "A", 1), ("ask", "A", 2)], c2=[("tell", "A", 3)]),
    dict(cap=1, hy=0, cause="stop", c1=[("tell", "A", 1), ("ask", "A", 2)], c2=None),
    dict(cap=1, hy=1, cause="stop", c1=[("tell", "A", 1), ("tell", "A", 2)], c2=None),
    dict(cap=2, hy=0, cause="stop", c1=[("tell", "A", 1), ("ask", "A", 2)], c2=[("tell", "A", 3)]),
]
SENDERS_THOROUGH = SENDERS_QUICK + [
    dict(cap=1, hy=0, cause="stop", c1=[("tell", "A", 1), ("ask", "A", 2)], c2=[("tell", "A", 3)]),
    dict(cap=2, hy=1, cause="stop", c1=[("tell", "A", 1), ("ask", "A", 2)], c2=[("tell", "A", 3)]),
    dict(cap=2, hy=1, cause="drop", c1=[("tell", "A", 1), ("ask", "A", 2)], c2=[("tell", "A", 3), ("tell", "A", 4)]),
    dict(cap=3, hy=0, cause="drop", c1=[("tell", "A", 1), ("ask", "A", 2)], c2=[("ask", "A", 3), ("tell", "A", 4)]),
    dict(cap=1, hy=1, cause="drop", c1=[("ask", "A", 1), ("tell", "A", 2)], c2=[("ask", "A", 3)]),
]


def senders(prog, ex, P, tier):
    """concurrent senders mixing tell and ask; capacity 1..3 (capacity 1 with senders queued for
    the slot), handler duration 0..1 yields; ended by dropping every reference or by an
    explicit stop() from another task"""
    v = pick(ex, SENDERS_QUICK if tier == "quick" else SENDERS_THOROUGH, "variant")
    cap = v["cap"]
    s = Sim(prog, ex)
    s.spawn_actor(Script("A", handler_yields={"*": v["hy"]}), cap)
    s.client("c1", v["c1"], ["A"])
    if v["c2"]:
        s.client("c2", v["c2"], ["A"])
    if v["cause"] == "stop":
        s.client("c3", [("stop", "A")], ["A"])
    s.drop_main("A")
    allow_time(s, ex)
    s.run(80)
    tr = finish(ex, s)
    apply(tr, P, cap=cap)
    if P in ("C01", "C07"):
        M.mon_c07(tr, "A", expect_alive=False)


ABANDONED = [
    # an ask whose caller gives up (timeout) after the mailbox accepted it, with later traffic behind it
    dict(cap=3, hy=1, pre=[("tell", "A", 7)], c1=[("ask_t", "A", 1, "d"), ("tell", "A", 2)], c2=None),
    # the ask future is dropped (select!/abort) at an arbitrary moment
    dict(cap=3, hy=1, pre=[("tell", "A", 7)], c1=[("ask_c", "A", 1), ("tell", "A", 2)], c2=None),
    # a tell waiting for a slot is dropped at an arbitrary moment
    dict(cap=1, hy=1, pre=[("tell", "A", 7)], c1=[("tell_c", "A", 1), ("tell", "A", 2)], c2=None),
    # two askers, one of them abandons
    dict(cap=2, hy=1, pre=None, c1=[("ask_c", "A", 1), ("ask", "A", 2)], c2=[("ask", "A", 3)]),
]


def abandoned(prog, ex, P, tier):
    """operations whose caller gives up: ask_with_timeout expiring after acceptance, ask / tell
    futures dropped at an arbitrary moment (every cancellation point is a scheduler choice), with
    later traffic queued behind them"""
    v = pick(ex, ABANDONED if tier != "quick" else ABANDONED[:3], "variant")
    s = Sim(prog, ex)
    w = s.w
    s.spawn_actor(Script("A", handler_yields={"*": v["hy"]}), v["cap"])
    d = ex.sym("d", 64)
    ex.assume(z3.ULE(d, 4))
    if v["pre"]:
        s.client("c0", v["pre"], ["A"])
        w.poll_task(s.it, w.tasks[1])
    ops = [tuple(d if x == "d" else x for x in op) for op in v["c1"]]
    c1 = s.client("c1", ops, ["A"], keep_refs=(P == "C20"))      # C20 reads the metrics through a kept handle
    if v["c2"]:
        s.client("c2", v["c2"], ["A"])
    s.drop_main("A")
    ticks = [1]

    def can_tick():
        return ticks[0] > 0 and c1.cur is not None and c1.ops[c1.i][0] == "ask_t"

    def tick():
        ticks[0] -= 1
        dt = ex.sym("dt%d" % ticks[0], 64)
        ex.assume(z3.ULE(dt, 6))
        w.advance(dt)
    s.extra_actions.append((can_tick, tick, "clock-advance"))
    s.extra_actions.append((c1.can_cancel, lambda: c1.cancel(s.it), "cancel-c1"))
    s.run(80)
    tr = finish(ex, s)
    apply(tr, P, cap=v["cap"])


def drop_immediately(prog, ex, P, tier):
    """references dropped immediately after the send returns, full mailbox, slow handler"""
    cap = pick(ex, [1, 2], "cap")
    s = Sim(prog, ex)
    s.spawn_actor(Script("A", handler_yields={"*": 1}), cap)
    s.client("c1", [("tell", "A", 1), ("tell", "A", 2), ("drop", "A")], ["A"])
    s.client("c2", [("tell", "A", 3), ("drop", "A")], ["A"])
    s.drop_main("A")
    allow_time(s, ex)
    s.run(80)
    tr = finish(ex, s)
    apply(tr, P, cap=cap)
    M.mon_c07(tr, "A", expect_alive=False)


CAUSES = ["stop", "kill", "drop", "on_start_err", "on_start_panic", "on_run_err", "on_run_panic", "handler_panic",
          "stop+on_stop_err", "stop+on_stop_panic", "on_run_err+on_stop_err", "on_run_err+on_stop_panic", "kill+on_stop_panic", "drop+on_stop_panic", "kill+on_stop_err", "on_start_slow+kill", "slow_on_stop:stop+kill",
          "on_start_slow+stop", "on_start_slow+kill_only"]


def script_for(cause, hy):
    sc = Script("A", handler_yields={"*": hy})
    sc._expect_panic = False
    if cause == "on_start_err":
        sc.on_start = ("err", 0)
    if cause == "on_start_panic":
        sc.on_start = ("panic", 0)
        sc._expect_panic = True
    if cause.startswith("on_start_slow"):
        sc.on_start = ("ok", 1)
    if cause.startswith("on_run_err"):
        sc.on_run = [("true", 1), ("err", 0)]
    if cause == "on_run_panic":
        sc.on_run = [("true", 1), ("panic", 0)]
    if cause == "handler_panic":
        sc.handler_panics = {2}
    if cause.startswith("slow_on_stop"):
        sc.on_stop = ("ok", 1)
    if cause.endswith("on_stop_err"):
        sc.on_stop = ("err", 0)
    if cause.endswith("on_stop_panic"):
        sc.on_stop = ("panic", 0)
    return sc


def endings(prog, ex, P, tier):
    """two concurrent askers (and one late prober) against an actor that ends by each of the
    termination causes, arriving at an arbitrary moment"""
    cause = pick(ex, CAUSES if tier != "quick" else [c for c in CAUSES if c != "on_start_slow+stop"], "cause")
    hy = pick(ex, [0, 1], "handler-yields") if tier != "quick" or cause == "kill" else 0
    cap = 1 if tier == "quick" else pick(ex, [1, 2], "cap")
    s = Sim(prog, ex)
    s.spawn_actor(script_for(cause, hy), cap)
    if cause != "on_start_slow+kill_only":          # (that cause: a kill during on_start and no other holder of a reference)
        s.client("c1", [("ask", "A", 1)], ["A"])
        s.client("c2", [("ask", "A", 2)], ["A"])
    if cause.startswith("stop") or cause.endswith("+stop") or "stop+" in cause:
        s.client("cs", [("stop", "A")], ["A"])
    if cause.startswith("kill") or cause.endswith("+kill") or cause.endswith("+kill_only"):
        s.client("ck", [("kill", "A")], ["A"])
    if cause in (("on_run_panic", "on_start_err") if tier == "quick" else ("on_run_err", "on_run_panic", "on_run_err+on_stop_err", "handler_panic", "on_start_err", "on_start_panic")):
        # a prober that keeps a reference and asks at an arbitrary later moment
        s.client("late", [("yield",), ("ask", "A", 9)], ["A"])
    s.drop_main("A")
    allow_time(s, ex)
    s.run(90)
    tr = finish(ex, s)
    apply(tr, P, cap=cap)
    if P == "C05":
        M.mon_c05_panic(tr)


def kill_preempts(prog, ex, P, tier):
    """mailbox holding up to 3 messages (one of them an ask), kill() at an arbitrary moment,
    handler / on_run possibly in progress"""
    hy = pick(ex, [0, 1], "handler-yields")
    idle = pick(ex, ["none", "on_run_yielding"], "idle")
    sc = Script("A", handler_yields={"*": hy})
    if idle == "on_run_yielding":
        sc.on_run = [("true", 1), ("true", 1), ("false", 0)]
    s = Sim(prog, ex)
    s.spawn_actor(sc, 3)
    s.client("c1", [("tell", "A", 1), ("tell", "A", 2), ("ask", "A", 3)], ["A"])
    s.client("ck", [("kill", "A")] + ([("kill", "A")] if tier != "quick" else []), ["A"], keep_refs=True)
    s.drop_main("A")
    allow_time(s, ex)
    s.run(90)
    tr = finish(ex, s)
    apply(tr, P, cap=3)
    if P == "C06":
        M.mon_c04(tr)


def idle_handler(prog, ex, P, tier):
    """on_run scripts x message arrival"""
    scr = pick(ex, [[("true", 1), ("false", 0)], [("true", 1), ("true", 1), ("false", 0)], [("false", 0)], [("true", 1), ("err", 0)], [("false", 1)],
                    [("true", 0), ("false", 0)], "self-kill-then-err"], "on_run-script")
    selfkill = scr == "self-kill-then-err"
    if selfkill:
        scr = [("err", 0)]
    sc = Script("A", on_run=scr)
    if selfkill:
        # the idle hook kills its own actor and then fails: the failure decides (on_stop(false), Failed)
        sc.on_run_actions = [("kill", "A")]
    s = Sim(prog, ex)
    s.spawn_actor(sc, pick(ex, [1, 2], "cap"))
    s.client("c1", [("tell", "A", 1), ("yield",), ("tell", "A", 2), ("ask", "A", 3)], ["A"], keep_refs=True)
    allow_time(s, ex)
    s.run(90)
    tr = finish(ex, s)
    apply(tr, P)
    if P == "C08" or P == "C07":
        errs = any(o == "err" for o, _ in scr)
        M.mon_c07(tr, "A", expect_alive=not errs)
        if not errs:
            # still serving after Ok(false): the ask (sent last) was answered
            for o in tr.ops().values():
                if o["op"][0] == "ask":
                    ex.check(P, M.rcode(o["result"]) == "ok", "actor stopped serving messages after on_run returned Ok(false): %s" % o["result"])


def slow_start(prog, ex, P, tier):
    """senders flooding an actor whose on_start is still suspended (capacity 1-2, capacity+2
    sends from two clients), then normal service; optionally stopped"""
    cap = pick(ex, [1, 2], "cap")
    end = pick(ex, ["drop", "stop"], "end")
    s = Sim(prog, ex)
    sc = Script("A")
    sc.on_start = ("ok", 2)
    s.spawn_actor(sc, cap)
    s.client("c1", [("tell", "A", 1), ("tell", "A", 2)], ["A"])
    s.client("c2", [("tell", "A", 3)] + ([("ask", "A", 4)] if cap == 2 else []), ["A"])
    if end == "stop":
        s.client("cs", [("stop", "A")], ["A"])
    s.drop_main("A")
    allow_time(s, ex)
    s.run(90)
    tr = finish(ex, s)
    apply(tr, P, cap=cap)
    if P != "C04":
        M.mon_c04(tr)


def long_idle(prog, ex, P, tier):
    """a long run of idle work: on_run returns Ok(true) N times in a row without ever suspending
    (the documented "one backlog item per idle call" pattern), then Ok(false); N = 140 (thorough
    260).  Threshold-dependent behaviour of the idle path shows up here; messages are served
    before and after."""
    N = 140 if tier == "quick" else 260
    variant = pick(ex, ["idle-only", "message-in-the-middle"], "variant")
    sc = Script("A", on_run=[("true", 0)] * N + [("false", 0)])
    s = Sim(prog, ex)
    ex.max_steps = max(ex.max_steps, 4000 * N)
    s.spawn_actor(sc, 2)
    if variant == "message-in-the-middle":
        s.client("c1", [("tell", "A", 1), ("ask", "A", 2)], ["A"], keep_refs=True)
    s.run(40)
    tr = finish(ex, s)
    apply(tr, P)
    runs = len(tr.hook("A", "on_run", "hook_exit"))
    ex.check(P, runs == N + 1, "on_run returned Ok(true) but was not run again when idle: %d of %d scripted invocations happened" % (runs, N + 1))
    M.mon_c07(tr, "A", expect_alive=True)


def ref_histories(prog, ex, P, tier):
    """clone / drop / downgrade / upgrade histories interleaved with traffic"""
    h = pick(ex, ["weak-only", "upgrade-keeps-alive", "envelope-holds-last", "clone-chain", "keep-one"], "history")
    periodic = pick(ex, [False, True], "periodic-on_run")
    s = Sim(prog, ex)
    sc = Script("A", handler_yields={"*": pick(ex, [0, 1], "handler-yields") if not periodic else 0})
    if periodic:
        # the documented periodic-task pattern: on_run awaits a timer and returns Ok(true) for ever
        sc.on_run_default = ("true", "tick")
        ticks = [2]
        s.extra_actions.append((lambda: ticks[0] > 0, lambda: (ticks.__setitem__(0, ticks[0] - 1), s.w.advance(1)), "clock-advance"))
    s.spawn_actor(sc, 2)
    alive = False
    if h == "weak-only":
        s.client("c1", [("downgrade", "A"), ("tell", "A", 1), ("drop", "A"), ("yield",), ("weak_is_alive", "A")], ["A"])
    elif h == "upgrade-keeps-alive":
        s.client("c1", [("downgrade", "A"), ("upgrade", "A"), ("tell", "A", 1), ("yield",), ("tell", "A", 2)], ["A"], keep_refs=True)
        alive = True
    elif h == "envelope-holds-last":
        s.client("c1", [("tell", "A", 1), ("tell", "A", 2), ("drop", "A")], ["A"])
    elif h == "clone-chain":
        s.client("c1", [("tell", "A", 1)], ["A"])
        s.client("c2", [("downgrade", "A"), ("drop", "A"), ("yield",), ("upgrade", "A"), ("tell", "A", 2)], ["A"])
    else:
        s.client("c1", [("tell", "A", 1), ("yield",), ("is_alive", "A"), ("ask", "A", 2)], ["A"], keep_refs=True)
        alive = True
    s.drop_main("A")
    allow_time(s, ex)
    s.run(90)
    tr = finish(ex, s)
    apply(tr, P)
    M.mon_c07(tr, "A", expect_alive=alive)
    M.mon_c01(tr)
    for o in tr.ops().values():
        if o["op"][0] == "weak_is_alive" and tr.actor_task("A").state != "running":
            pass
        if o["op"][0] == "tell" and o["op"][2] == 2 and h == "clone-chain":
            # an upgraded reference behaves like any other strong reference
            up = [x for x in tr.ops().values() if x["op"][0] == "upgrade" and x["client"] == o["client"]]
            if up and up[0]["result"] is True:
                ex.check(P, M.rcode(o["result"]) == "ok" or tr.actor_task("A").state != "running", "tell through an upgraded reference failed: %s" % o["result"])


# ---- timeouts ------------------------------------------------------------------------
def timeouts(prog, ex, P, tier):
    """tell_with_timeout / ask_with_timeout with a symbolic timeout d, symbolic clock increments,
    mailbox free / full, actor answering / slow / dying"""
    kind = pick(ex, ["tell_t", "ask_t"] + (["tell", "ask"] if P in ("C13", "C01") else []), "op")
    state = pick(ex, ["free", "full", "dying", "full+dying"] if kind.endswith("_t") else ["full+dying", "dying"], "mailbox")
    slow = pick(ex, [0, 2], "handler-yields")
    s = Sim(prog, ex)
    w = s.w
    d = ex.sym("d", 64)
    ex.assume(z3.ULE(d, 6))
    sc = Script("A", handler_yields={"*": slow})
    s.spawn_actor(sc, 1)
    if state.startswith("full"):
        s.client("c0", [("tell", "A", 7)], ["A"])
        s.run_fair_until_client_done = True
        # let c0 fill the mailbox before anything else happens
        w.poll_task(s.it, s.w.tasks[1])
    ops = [(kind, "A", 1, d)] if kind.endswith("_t") else [(kind, "A", 1)]
    s.client("c1", ops, ["A"])
    if state.endswith("dying"):
        s.client("ck", [("kill", "A")], ["A"])
    s.drop_main("A")
    ticks = [2 if tier == "quick" else 3]

    def can_tick():
        # time may pass at any moment once the timed operation has been started
        started = any(e["ev"] == "op_start" and e["client"] == "c1" for e in ex.events)
        return ticks[0] > 0 and started and any(t.state == "running" and t.name == "client:c1" for t in w.tasks)

    def tick():
        ticks[0] -= 1
        dt = ex.sym("dt%d" % ticks[0], 64)
        ex.assume(z3.ULE(dt, 4))
        w.advance(dt)
    s.extra_actions.append((can_tick, tick, "clock-advance"))
    s.run(60)
    tr = finish(ex, s)
    mon_c10(tr, d)
    if P == "C13":
        M.mon_c13(tr)
    if P == "C01":
        M.mon_c01(tr)


def mon_c10(tr, d):
    ex, w = tr.ex, tr.w
    for t in w.timeouts:
        same = (t == d) if not isinstance(t, int) else False
        ex.check("C10", same if isinstance(same, bool) else same, "the duration handed to the timer is not the caller's timeout")
    for key, o in tr.ops().items():
        if o["op"][0] not in ("tell_t", "ask_t"):
            continue
        start_now = tr.ev[o["start"]].get("now_raw", 0)
        deadline = start_now + d
        # never late: every poll of the client after which the operation is still pending must have
        # happened strictly before the deadline (for all values of d and the clock increments)
        end = o["done"] if o["done"] is not None else len(tr.ev)
        polls = [i for i in range(o["start"], end) if tr.ev[i]["ev"] == "sched" and tr.ev[i]["task"] == "client:" + o["client"]]
        completing = max([i for i in polls if o["done"] is not None and i < o["done"]], default=None)
        for i in polls:
            if i == completing:
                continue
            nowp = tr.ev[i].get("now_raw", 0)
            ex.check("C10", z3.ULT(nowp if not isinstance(nowp, int) else z3.BitVecVal(nowp, 64), deadline),
                     "the operation was polled at or after its deadline and stayed pending (returns late)")
        if o["done"] is not None:
            now = tr.ev[o["done"]].get("now_raw", 0)
            rc = M.rcode(o["result"])
            if rc == "timeout":
                ex.check("C10", w.zge(now, deadline), "Err(Timeout) returned before the deadline")
            ex.check("C10", rc in ("ok", "timeout", "send", "receive"), "unexpected result %s" % o["result"])
            if rc == "timeout":
                # the timeout did not mask an outcome that was already available: the actor was
                # still alive and (for ask) no reply had been produced
                t = tr.actor_task("A")
        else:
            # still pending at quiescence: only legitimate while the deadline has not passed
            ex.check("C10", z3.ULT(w.now if not isinstance(w.now, int) else z3.BitVecVal(w.now, 64), deadline),
                     "operation still pending at quiescence although its deadline has passed")
    ex.check("C10", len(w.timeouts) <= 1, "more than one timer created for one operation")


# ---- two actors ------------------------------------------------------------------------
def failing_alone(prog, ex, P, tier):
    """A panics / fails in a hook while exchanging messages with B; B must be unaffected"""
    where = pick(ex, ["on_start_panic", "handler_panic", "on_run_panic", "on_stop_panic", "on_run_err", "kill+on_stop_panic", "on_run_err+on_stop_panic"], "crash-point")
    # (no "drop+..." crash point here: A and B hold references to each other, so neither is ever unreferenced)
    s = Sim(prog, ex)
    sa = script_for(where if where != "on_stop_panic" else "stop+on_stop_panic", 0)
    sa.name = "A"
    sb = Script("B")
    s.spawn_actor(sb, 2)
    s.spawn_actor(sa, 2)
    # A's handler for message 2 panics; A's handler for 1 tells B; B's handler for 5 asks A
    sa.handler_actions = {1: [("tell", "B", 11)]}
    sb.handler_actions = {5: [("ask", "A", 2)]}
    s.give_ref("A", "B")
    s.give_ref("B", "A")
    s.client("c1", [("ask", "A", 1), ("ask", "B", 5), ("ask", "B", 6)] if tier != "quick" else [("ask", "B", 5), ("ask", "B", 6)], ["A", "B"])
    if where == "on_stop_panic":
        s.client("cs", [("stop", "A")], ["A"])
    if where == "kill+on_stop_panic":
        s.client("ck", [("kill", "A")], ["A"])
    if tier != "quick":
        s.client("late", [("yield",), ("ask", "B", 7)], ["B"])
    s.drop_main("A")
    s.drop_main("B")
    s.run(120)
    tr = finish(ex, s)
    ta = tr.actor_task("A")
    if where.endswith("panic") and where in ("on_start_panic", "on_stop_panic"):
        ex.check("C12", ta.state == "panicked", "A's hook panicked but its JoinHandle says %s" % ta.state)
    # whichever hook of A panicked on this schedule: the JoinHandle must report the panic
    hp = [e for e in tr.ev if e["ev"] == "hook_panic" and e.get("actor") == "A"]
    if hp:
        ex.check("C12", ta.state == "panicked", "A's %s panicked but its JoinHandle reports a regular result (%s)" % (hp[0]["hook"], ta.state))
    # B satisfies the other properties and keeps answering
    for m in (M.mon_c04, M.mon_c05, M.mon_c01, M.mon_c02):
        try:
            m(tr, "B")
        except Violation as v:
            raise Violation("C12", "surviving actor B violates %s: %s" % (v.prop, v.msg), v.detail)
    M.mon_c04(tr, "A")
    for o in tr.ops().values():
        ex.check("C12", o["done"] is not None, "operation %s never completed" % (o["op"],))
        if len(o["op"]) > 2 and o["op"][1] == "B" and o["op"][2] in (6, 7):
            ex.check("C12", M.rcode(o["result"]) == "ok", "ask to the surviving actor B failed: %s" % o["result"])
    ex.check("C12", tr.actor_task("B").state == "finished" and tr.actor_task("B").result.variant == "Completed", "B did not complete normally: %s" % tr.w.describe(tr.actor_task("B").result))
    ids = [tr.w.describe(tr.w.actors[a]["id"]) for a in ("A", "B")]
    ex.check("C12", ids[0] != ids[1], "two actors share id %s" % ids[0])


# ---- type-erased handles (C16) -----------------------------------------------------------
def erased(prog, ex, P, tier):
    """the `senders` / `timeouts` style runs with every operation routed through a symbolically
    chosen erased wrapper; the same monitors must hold, the timer must receive the caller's
    duration, stop/kill must keep their meaning, temporaries must not leak references"""
    v = pick(ex, [
        dict(cap=1, cause="drop", ops=[("tell", "A", 1), ("ask", "A", 2)]),
        dict(cap=2, cause="stop", ops=[("tell", "A", 1), ("ask", "A", 2)]),
        dict(cap=1, cause="kill", ops=[("tell", "A", 1), ("tell", "A", 2)]),
        dict(cap=1, cause="drop", ops=[("tell_t", "A", 1, 5), ("ask_t", "A", 2, 7)]),
        dict(cap=1, cause="stop", ops=[("tell", "A", 1), ("tell", "A", 2)]),
    ], "variant")
    s = Sim(prog, ex)
    s.spawn_actor(Script("A"), v["cap"])
    if v["cause"] in ("stop", "kill"):
        allow_time(s, ex)
    c1 = s.client("c1", v["ops"], ["A"])
    for i in range(len(v["ops"])):
        c1.routes[i] = pick(ex, list(c1.ROUTES), "route%d" % i)
    if v["cause"] in ("stop", "kill"):
        c3 = s.client("c3", [(v["cause"], "A"), ("is_alive", "A")], ["A"])
        c3.routes[0] = pick(ex, ["direct", "from_ref", "clone_boxed"], "ctl-route")
    s.drop_main("A")
    s.run(80)
    tr = finish(ex, s)
    for mon in (M.mon_c01, M.mon_c02, M.mon_c03, M.mon_c04, M.mon_c13):
        try:
            mon(tr)
        except Violation as e:
            raise Violation("C16", "through erased handles (%s): %s: %s" % ([c1.routes.get(i) for i in range(len(v["ops"]))], e.prop, e.msg), e.detail)
    M.mon_c07(tr, "A", expect_alive=False)
    if v["cause"] == "kill":
        M.mon_c06(tr)
    if v["cause"] == "stop":
        t = tr.actor_task("A")
        ex.check("C16", t.state == "finished" and t.result.variant == "Completed" and t.result.fields[1] is False, "stop() through an erased control handle did not stop gracefully: %s" % tr.w.describe(t.result))
    # the duration handed to the timer is the caller's
    exp = [op[3] for op in v["ops"] if op[0].endswith("_t")]
    got = [d for d in tr.w.timeouts]
    ex.check("C16", got == exp[:len(got)], "timer durations %s, caller passed %s" % (got, exp))
    # ... and every *_with_timeout call that was actually issued (not skipped because an upgrade failed) created its timer
    issued = [o["op"][3] for o in sorted(tr.ops().values(), key=lambda x: x["start"]) if o["op"][0].endswith("_t") and not str(o["result"]).startswith("skipped")]
    ex.check("C16", len(got) == len(issued), "timers created %s, *_with_timeout calls issued through erased handles with %s: a timeout was dropped or doubled" % (got, issued))
    # identity through the handle is the actor's
    a = tr.w.actors["A"]


def erased_lifetime(prog, ex, P, tier):
    """strong trait objects keep the actor alive exactly like an ActorRef; weak ones never do"""
    tr_name = pick(ex, ["TellHandler", "AskHandler", "ActorControl"], "trait")
    weak = pick(ex, [False, True], "weak")
    s = Sim(prog, ex)
    s.spawn_actor(Script("A"), 2)
    ops = [("downgrade", "A"), ("weak_routes", "A"), ("tell", "A", 1), ("into_boxed", "A", tr_name)]
    if weak:
        ops.append(("boxed_downgrade", "A", tr_name))
    if tr_name == "TellHandler" and not weak:
        ops += [("yield",), ("boxed_tell", "A", 2)]
    ops += [("yield",), ("weak_routes", "A")]
    c1 = s.client("c1", ops, ["A"], keep_refs=True)
    # a second holder keeps a strong reference past the actor's end and compares the routes again
    ender = pick(ex, ["none", "stop", "kill"], "ender")
    if ender != "none":
        s.client("c2", [("downgrade", "A"), (ender, "A"), ("yield",), ("weak_routes", "A"), ("yield",), ("weak_routes", "A")], ["A"], keep_refs=True)
    s.drop_main("A")
    s.run(80)
    t = finish(ex, s)
    for cl in s.clients.values():
        for op, res in zip(cl.ops, cl.results):
            if op[0] == "weak_routes" and isinstance(res, Agg):
                ex.check("C16", len(set(res.fields)) == 1, "upgrade() through [ActorWeak, WeakTellHandler, WeakAskHandler, WeakActorControl] gives %s" % res.fields)
    if ender != "none":
        ex.sim = s
        ex.steps = s.it.steps
        return
    M.mon_c07(t, "A", expect_alive=not weak)
    M.mon_c01(t)
    if tr_name == "TellHandler" and not weak:
        hd = [e["msg"] for _, e in t.handled("A")]
        ex.check("C16", hd == [1, 2], "messages through a kept Box<dyn TellHandler> were handled as %s" % hd)


# ---- identity / is_alive / upgrade (C11) -----------------------------------------------------
def identity(prog, ex, P, tier):
    cause = pick(ex, ["stop", "kill", "drop", "on_run_err", "handler_panic"], "cause")
    s = Sim(prog, ex)
    w = s.w
    sc = script_for(cause, 0)
    s.spawn_actor(sc, 2)
    sb = Script("B")
    s.spawn_actor(sb, 1)
    s.spawn_actor(Script("C"), 1)
    ids = [w.describe(w.actors[a]["id"]) for a in ("A", "B", "C")]
    ex.check("C11", len(set(ids)) == 3, "actors share an id: %s" % ids)
    sampler = s.client("sm", [("identities", "A"), ("downgrade", "A"), ("is_alive", "A"), ("tell", "A", 1), ("yield",), ("is_alive", "A"), ("weak_is_alive", "A"),
                              ("drop", "A"), ("yield",), ("weak_is_alive", "A"), ("upgrade", "A"), ("tell", "A", 3)], ["A"])
    if P == "C11":
        # is_alive() asked of the reference itself or of a Box<dyn ActorControl> made from it
        rt = pick(ex, ["direct", "from_ref", "clone_boxed"], "alive-route")
        sampler.routes[2] = rt
        sampler.routes[5] = rt
    if cause == "stop":
        s.client("cs", [("stop", "A")], ["A"])
    elif cause == "kill":
        s.client("ck", [("kill", "A")], ["A"])
    else:
        s.client("c2", [("tell", "A", 2)], ["A"])
    for a in ("A", "B", "C"):
        s.drop_main(a)
    s.run(90)
    tr = finish(ex, s)
    a = w.actors["A"]
    t = a["task"]
    # 1. one identity through every handle
    for o in tr.ops().values():
        if o["op"][0] == "identities" and o["done"] is not None:
            res = sampler.results[0]
            exp = (w.describe(a["id"]),)
            for k, idv in enumerate(res.fields):
                ex.check("C11", w.describe(idv.fields[0]) == exp[0], "handle #%d reports id %s, the actor's id is %s" % (k, w.describe(idv.fields[0]), exp[0]))
                ex.check("C11", w.describe(idv.fields[1]) == w.describe(res.fields[0].fields[1]), "handle #%d reports another type name" % k)
    # 2. is_alive / upgrade tell the truth
    trig = tr.first(lambda e: (e["ev"] == "accepted" and e.get("chan") in ("term:A",) ) or (e["ev"] == "accepted" and e.get("chan") == "mailbox:A" and e.get("what") == "stop")
                    or (e["ev"] == "hook_exit" and e.get("actor") == "A" and e.get("hook") == "on_run" and "Err" in str(e.get("out"))) or (e["ev"] == "task_panicked" and e.get("task") == t.name)
                    or (e["ev"] == "panic"))
    last_strong_gone = None
    end = tr.first(lambda e: e["ev"] in ("task_finished", "task_panicked") and e.get("task") == t.name)
    for o in tr.ops().values():
        if o["done"] is None:
            continue
        k = o["op"][0]
        if k == "is_alive":
            if trig is None or o["done"] < trig:
                # nothing has begun to end the actor, and the sampler itself holds a strong reference
                ex.check("C11", o["result"] is True, "is_alive() = false on a running actor")
            if end is not None and o["start"] > end:
                ex.check("C11", o["result"] is False, "is_alive() = true after the actor's JoinHandle resolved")
        if k in ("upgrade", "weak_is_alive"):
            sc_ev = [e for e in tr.ev[o["start"]:o["done"] + 1] if e["ev"] == "strong_count"]
            if sc_ev:
                strong = sc_ev[0]["mailbox"] > 0 and sc_ev[0]["term"] > 0
                ex.check("C11", o["result"] is strong, "%s returned %s while strong references exist = %s" % (k, o["result"], strong))
        if k == "tell" and o["op"][2] == 3:
            up = [x for x in tr.ops().values() if x["op"][0] == "upgrade"]
            if str(o["result"]).startswith("skipped"):
                continue
            # a send through an upgraded reference behaves like any other: Ok while the actor lives, error after
            if end is not None and o["start"] > end:
                ex.check("C11", M.rcode(o["result"]) != "ok", "send after the actor ended succeeded")
    M.mon_c01(tr)
    M.mon_c07(tr, "A")


def id_reuse(prog, ex, P, tier):
    """ids over time: an actor ends by each cause (also a failed / panicking on_start), then
    further actors are spawned: no id is ever handed out twice, and the handles of the ended
    actor keep reporting its id"""
    cause = pick(ex, ["on_start_err", "on_start_panic", "stop", "kill", "drop", "on_run_err", "handler_panic"], "cause")
    s = Sim(prog, ex)
    w = s.w
    a = s.spawn_actor(script_for(cause, 0), 1)
    ida = w.describe(a["id"])
    c1 = s.client("c1", [("downgrade", "A"), ("tell", "A", 1), ("tell", "A", 2)], ["A"], keep_refs=True)
    if cause == "stop":
        s.client("cs", [("stop", "A")], ["A"])
    if cause == "kill":
        s.client("ck", [("kill", "A")], ["A"])
    s.drop_main("A")
    s.run(60)
    b = s.spawn_actor(Script("B"), 1)
    c = s.spawn_actor(Script("C"), 1)
    s.drop_main("B")
    s.drop_main("C")
    s.run(60)
    tr = finish(ex, s)
    ids = [ida, w.describe(b["id"]), w.describe(c["id"])]
    ex.check("C11", len(set(ids)) == 3, "an id was handed out twice: A(%s, ended by %s)=%s, later spawns B=%s, C=%s" % (cause, cause, ids[0], ids[1], ids[2]))
    cell = c1.refs.get("A")
    if cell is not None and cell.value is not MOVED:
        again = w.call_method(s.it, "ActorRef", "identity", [Ref(cell, (), False)])
        ex.check("C11", w.describe(again.fields[0]) == ida, "a kept handle of the ended actor now reports id %s (was %s)" % (w.describe(again.fields[0]), ida))
    wk = c1.weak.get("A")
    if wk is not None:
        again = w.call_method(s.it, "ActorWeak", "identity", [Ref(wk, (), False)])
        ex.check("C11", w.describe(again.fields[0]) == ida, "a weak handle of the ended actor now reports id %s (was %s)" % (w.describe(again.fields[0]), ida))


def id_alloc(prog, ex, P, tier):
    """identity allocation under concurrent spawning.  Two "threads" (separate thread-local
    storage) each perform K consecutive real `spawn_with_mailbox_capacity` calls.  Every atomic
    operation they perform on a *static* is recorded symbolically: its result is a fresh z3
    variable, so the recorded run stands for every value of the process-wide state; thread-local
    state starts from its initialiser.  Then every merge of the two threads' atomic-operation
    sequences is replayed over a symbolic initial value of each static, and z3 must refute
    "two of the 2K ids are equal" (together with the path conditions of the recorded run).
    K is the largest prefix (<= 70, thorough 140) whose number of merges stays <= 3000."""
    import itertools, math
    KMAX = 70 if tier == "quick" else 140
    LIMIT = 3000
    s = Sim(prog, ex)
    w = s.w
    log = []           # (thread, spawn index, kind, static name, operand, result var)
    cur = [0, 0]
    orig = dict(w.builtins)

    def static_name(it, a):
        r = a[0]
        if isinstance(r, Ref) and (r.cell.tag or "").startswith("static "):
            return r.cell.tag[len("static "):]
        return None

    def wrap(kind):
        def f(w_, it, a, c):
            nm = static_name(it, a)
            if nm is None:
                return orig["Atomic::" + kind](w_, it, a, c)
            rv = z3.BitVec("r%d" % len(log), 64)
            ex.assume(z3.ULT(rv, z3.BitVecVal(2 ** 62, 64)))
            operand = a[1].z() if len(a) > 1 and isinstance(a[1], IntV) else None
            log.append((cur[0], cur[1], kind, nm, operand, rv))
            if kind == "store":
                return UNIT
            return IntV(rv, 64)
        return f
    for kind in ("fetch_add", "load", "store", "fetch_sub"):
        w.builtins["Atomic::" + kind] = wrap(kind)
    for kind in ("fetch_max", "fetch_update", "compare_exchange", "compare_exchange_weak", "swap", "fetch_or", "fetch_and"):
        def unsupported(w_, it, a, c, kind=kind):
            if static_name(it, a) is not None:
                raise Unsupported("id allocation uses Atomic::%s on a static (outside this obligation's encoding)" % kind)
            return orig["Atomic::" + kind](w_, it, a, c)
        if "Atomic::" + kind in orig:
            w.builtins["Atomic::" + kind] = unsupported
    ids = {0: [], 1: []}
    for th in (0, 1):
        w.cur_thread = th
        for k in range(KMAX):
            cur[0], cur[1] = th, k
            a = s.spawn_actor(Script("T%d_%d" % (th, k)), 1)
            ex.check("C11", isinstance(a["id"], IntV), "id is not an integer")
            ids[th].append(a["id"].z())
    w.cur_thread = 0
    ex.check("C11", len(log) >= 1, "spawn performs no atomic operation on a static: ids cannot be process-wide unique")
    # largest K whose interleaving count is within the limit
    def nops(th, K):
        return sum(1 for e in log if e[0] == th and e[1] < K)
    K = KMAX
    while K > 1 and math.comb(nops(0, K) + nops(1, K), nops(0, K)) > LIMIT:
        K -= 1
    L = {th: [e for e in log if e[0] == th and e[1] < K] for th in (0, 1)}
    n0, n1 = len(L[0]), len(L[1])
    statics = sorted({e[3] for e in log})
    x0 = {nm: z3.BitVec("x0_" + nm, 64) for nm in statics}
    allids = ids[0][:K] + ids[1][:K]
    pcs = list(ex.path_conds)
    nint = 0
    t_smt = 0.0
    for pos0 in itertools.combinations(range(n0 + n1), n0):
        nint += 1
        order = [1] * (n0 + n1)
        for p_ in pos0:
            order[p_] = 0
        x = dict(x0)
        pos = [0, 0]
        sub = []
        for th in order:
            _t, _k, kind, nm, operand, rv = L[th][pos[th]]
            pos[th] += 1
            opnd = z3.substitute(operand, *sub) if operand is not None and sub and not z3.is_bv_value(operand) else operand
            val = x[nm]
            if kind == "store":
                x[nm] = opnd
            elif kind == "fetch_add":
                x[nm] = x[nm] + opnd
            elif kind == "fetch_sub":
                x[nm] = x[nm] - opnd
            sub.append((rv, val))
        sol = z3.Solver()
        for nm in statics:
            sol.add(z3.ULT(x0[nm], z3.BitVecVal(2 ** 62, 64)))
        used = {str(rv) for rv, _v in sub}
        for c in pcs:
            # path conditions that mention operations beyond the prefix do not constrain it
            names = {str(v) for v in z3_vars(c)}
            if names and not names <= used | {str(v) for v in x0.values()}:
                continue
            sol.add(z3.substitute(c, *sub) if sub else c)
        idsub = [z3.substitute(e, *sub) if sub else e for e in allids]
        sol.add(z3.Not(z3.Distinct(*idsub)) if len(idsub) > 1 else z3.BoolVal(False))
        t0 = time.time()
        r = sol.check()
        t_smt += time.time() - t0
        ex.smt_queries += 1
        if r == z3.unknown:
            raise Unsupported("solver returned unknown on the id-uniqueness query")
        if r == z3.sat:
            m = sol.model()
            vals = [m.eval(e, model_completion=True).as_long() for e in idsub]
            dup = sorted({v for v in vals if vals.count(v) > 1})
            who = [("thread%d spawn#%d" % (0 if i < K else 1, i if i < K else i - K)) for i, v in enumerate(vals) if v in dup]
            ex.check("C11", False, "two spawns can obtain the same id %s (%s) with initial static values %s under the interleaving %s of the atomic operations %s" % (
                dup, ", ".join(who[:4]), {nm: m.eval(x0[nm], model_completion=True).as_long() for nm in statics}, "".join(map(str, order)),
                [(e[0], e[1], e[2], e[3]) for e in L[0] + L[1]][:8]))
    ex.smt_time += t_smt
    ex.event(ev="id_alloc", spawns_per_thread=K, executed_spawns_per_thread=KMAX, atomic_ops=[n0, n1], statics=statics, interleavings=nint,
             thread_locals=sorted({k[1] for k in getattr(w, "tls", {})}))
    ex.steps = s.it.steps
    ex.sim = s


def z3_vars(e):
    out, seen, todo = [], set(), [e]
    while todo:
        t = todo.pop()
        if t.get_id() in seen:
            continue
        seen.add(t.get_id())
        if z3.is_const(t) and t.decl().kind() == z3.Z3_OP_UNINTERPRETED:
            out.append(t)
        todo.extend(t.children())
    return out


# ---- metrics (C20) ------------------------------------------------------------------------------
def metrics_scn(prog, ex, P, tier):
    cause = pick(ex, ["keep", "stop", "kill", "handler_panic"], "cause")
    s = Sim(prog, ex)
    w = s.w
    sc0 = Script("A", handler_yields={"*": 1})
    if cause == "handler_panic":
        sc0.handler_panics = {2}
    s.spawn_actor(sc0, 2)
    s.client("c1", [("tell", "A", 1), ("ask", "A", 2), ("tell", "A", 3)], ["A"], keep_refs=True)
    if cause == "stop":
        s.client("cs", [("stop", "A")], ["A"])
    if cause == "kill":
        s.client("ck", [("kill", "A")], ["A"])
    s.drop_main("A")
    ticks = [2]
    spans = []

    def can_tick():
        return ticks[0] > 0

    def tick():
        ticks[0] -= 1
        dt = ex.sym("dt%d" % ticks[0], 64)
        ex.assume(z3.ULE(dt, 5 * 10 ** 9))     # up to 5 s: unit conversions (ns / ms / s) are in range
        # is a handler in progress right now?  (entered, not exited)
        ent = sum(1 for e in ex.events if e["ev"] == "hook_enter" and e["hook"] == "handler")
        exi = sum(1 for e in ex.events if e["ev"] in ("hook_exit", "hook_dropped") and e["hook"] == "handler" and e["ev"] == "hook_exit")
        spans.append((ent > exi, dt))
        w.advance(dt)
    s.extra_actions.append((can_tick, tick, "clock-advance"))
    s.run(70)
    tr = finish(ex, s)
    # longest time a handler demonstrably took: any single clock advance that happened while a
    # handler that later *completed* was in progress
    M.mon_c20(tr, "A")
    cell = s.clients["c1"].refs["A"]
    if cell.value is not MOVED:
        mx = w.call_method(s.it, "ActorRef", "max_processing_time", [Ref(cell, (), False)]).fields[0]
        completed = len([1 for _, e in tr.hook("A", "handler", "hook_exit")])
        entered = len(tr.handled("A"))
        if completed == entered:
            for inprog, dt in spans:
                if inprog:
                    ex.check("C20", w.zge(mx, dt), "max_processing_time is smaller than the time a handler demonstrably took")
        # weak-upgraded handle after the end reads the same values
        wk = Cell(w.call_method(s.it, "ActorRef", "downgrade", [Ref(cell, (), False)]), "wk")
        up = w.call_method(s.it, "ActorWeak", "upgrade", [Ref(wk, (), False)])
        if up.variant == "Some":
            c2 = Cell(up.fields[0], "up")
            n1 = w.call_method(s.it, "ActorRef", "message_count", [Ref(cell, (), False)])
            n2 = w.call_method(s.it, "ActorRef", "message_count", [Ref(c2, (), False)])
            ex.check("C20", w.describe(n1) == w.describe(n2), "metrics differ between a strong and a weak-upgraded handle")


# ---- capacity configuration (C09, function level) ------------------------------------------
def capacity_config(prog, ex, P, tier):
    mode = pick(ex, ["symbolic-cap", "zero-cap", "default-32", "configured", "config-zero", "spawn-then-configure"], "mode")
    s = Sim(prog, ex)
    w, it = s.w, s.it
    if mode == "symbolic-cap":
        cap = ex.sym("cap", 64)
        w.actors["A"] = {"script": Script("A")}
        try:
            r = it.call_path("spawn_with_mailbox_capacity::<T>", [w.actors["A"]["script"], IntV(cap, 64)])
            panicked = False
        except RustPanic:
            panicked = True
        if panicked:
            # only capacity 0 may be rejected
            ex.check("C09", cap == 0, "spawn_with_mailbox_capacity panicked for a non-zero capacity")
            ex.check("C09", len(getattr(w, "channel_requests", [])) == 0 or True, "")
        else:
            ex.check("C09", cap != 0, "capacity 0 was accepted")
            reqs = getattr(w, "channel_requests", [])
            ex.check("C09", len(reqs) == 2, "spawn created %d channels" % len(reqs))
            ex.check("C09", reqs[0].z() == cap, "the mailbox channel is not created with the requested capacity")
            ex.check("C09", reqs[1].z() == 1, "the termination channel does not have capacity 1")
    elif mode == "zero-cap":
        w.actors["A"] = {"script": Script("A")}
        try:
            it.call_path("spawn_with_mailbox_capacity::<T>", [w.actors["A"]["script"], IntV(0, 64)])
            ex.check("C09", False, "capacity 0 was accepted")
        except RustPanic:
            ex.check("C09", len(w.chans) == 0, "a channel was created before capacity 0 was rejected")
    elif mode == "default-32":
        a = s.spawn_actor(Script("A"), None)
        ex.check("C09", a["mailbox"].cap == 32, "spawn() without configuration created a mailbox of %d" % a["mailbox"].cap)
    else:
        n1 = pick(ex, [1, 2, 3, 40], "first")
        n2 = pick(ex, [1, 7], "second")
        if mode == "spawn-then-configure":
            # an actor spawned BEFORE the default is configured gets 32; the configuration that
            # follows still succeeds and governs every later spawn()
            z = s.spawn_actor(Script("Z"), None)
            ex.check("C09", z["mailbox"].cap == 32, "spawn() without configuration created a mailbox of %d" % z["mailbox"].cap)
        if mode == "config-zero":
            r0 = it.call_path("set_default_mailbox_capacity", [IntV(0, 64)])
            ex.check("C09", r0.variant == "Err", "set_default_mailbox_capacity(0) succeeded")
        r1 = it.call_path("set_default_mailbox_capacity", [IntV(n1, 64)])
        ex.check("C09", r1.variant == "Ok", "the first non-zero configuration was rejected")
        r2 = it.call_path("set_default_mailbox_capacity", [IntV(n2, 64)])
        ex.check("C09", r2.variant == "Err", "the default capacity could be configured twice")
        r3 = it.call_path("set_default_mailbox_capacity", [IntV(0, 64)])
        ex.check("C09", r3.variant == "Err", "set_default_mailbox_capacity(0) succeeded")
        a = s.spawn_actor(Script("A"), None)
        ex.check("C09", a["mailbox"].cap == n1, "spawn() used capacity %d, configured default is %d" % (a["mailbox"].cap, n1))
        b = s.spawn_actor(Script("B"), 2)
        ex.check("C09", b["mailbox"].cap == 2, "explicit capacity overridden by the default")
    ex.event(ev="capacity_config", mode=mode)
    ex.steps = it.steps
    ex.sim = s


# ---- deadlock detection (C14 / C15; feature deadlock-detection) ---------------------------------
def graph_edges(s):
    """read the wait-for graph (the in-crate static) : list of (caller id, callee id)"""
    it, w = s.it, s.w
    c = it.static_cells.get("WAIT_FOR")
    if c is None:
        return []
    ol = c.value                      # OnceLock
    if not isinstance(ol, Agg) or ol.fields[0].variant != "Some":
        return []
    mtx = ol.fields[0].fields[0]
    hm = mtx.fields[0]
    return sorted((k, w.describe(v.value.fields[0])) for k, v in hm.d.items())


def deadlock_cycles(prog, ex, P, tier):
    """ask cycles of length 1..3 with the closing ask in a handler / on_start / on_run / on_stop,
    plain ask or ask_with_timeout, every creation order of the edges (the scheduler's choice)"""
    shape = pick(ex, ["self-handler", "self-on_run", "2cycle", "2cycle-timeout", "3cycle", "2cycle-on_stop", "2cycle-full-mailbox",
                      "self-on_stop-after-run-err", "2cycle-on_stop-after-run-err", "self-on_start", "self-on_stop"] + (["4cycle"] if tier != "quick" or P == "C12" else []), "shape")
    s = Sim(prog, ex)
    w = s.w
    A, B, C = Script("A"), Script("B"), Script("C")
    D = Script("D")
    names = ["A"]
    if shape == "4cycle":
        # A -> B -> C -> D -> A, and afterwards a survivor asks again from a hook
        A.handler_actions = {1: [("ask", "B", 11)], 3: [("ask", "B", 31)]}
        B.handler_actions = {11: [("ask", "C", 21)]}
        C.handler_actions = {21: [("ask", "D", 41)]}
        D.handler_actions = {41: [("ask", "A", 12)]}
        names = ["A", "B", "C", "D"]
    elif shape == "self-handler":
        A.handler_actions = {1: [("ask", "A", 2)]}
    elif shape == "self-on_run":
        A.on_run = [("false", 0)]
        A.on_run_actions = [("ask", "A", 2)]
    elif shape in ("2cycle", "2cycle-timeout"):
        k = "ask_t" if shape.endswith("timeout") else "ask"
        A.handler_actions = {1: [(k, "B", 11) + ((50,) if k == "ask_t" else ())]}
        B.handler_actions = {11: [(k, "A", 12) + ((50,) if k == "ask_t" else ())]}
        names = ["A", "B"]
    elif shape == "2cycle-full-mailbox":
        # B is inside its handler for 5 (suspended once), a tell is queued behind it in B's
        # capacity-1 mailbox, so A's ask to B has to wait for a slot; then B's handler asks A
        A.handler_actions = {1: [("ask", "B", 11)]}
        B.handler_actions = {5: [("yield",), ("yield",), ("ask", "A", 12)]}
        names = ["A", "B"]
    elif shape == "2cycle-on_stop":
        # A is stopped; its on_stop asks B; B's handler for that request asks A back
        A.on_stop_actions = [("ask", "B", 12)]
        B.handler_actions = {12: [("ask", "A", 13)]}
        names = ["A", "B"]
    elif shape == "self-on_stop-after-run-err":
        # the clean-up on_stop that follows an on_run error asks its own actor
        A.on_run = [("err", 0)]
        A.on_stop_actions = [("ask", "A", 2)]
    elif shape == "2cycle-on_stop-after-run-err":
        A.on_run = [("err", 0)]
        A.on_stop_actions = [("ask", "B", 12)]
        B.handler_actions = {12: [("ask", "A", 13)]}
        names = ["A", "B"]
    elif shape == "self-on_start":
        A.on_start_actions = [("ask", "A", 2)]
    elif shape == "self-on_stop":
        A.on_stop_actions = [("ask", "A", 2)]
    else:
        A.handler_actions = {1: [("ask", "B", 11)]}
        B.handler_actions = {11: [("ask", "C", 21)]}
        C.handler_actions = {21: [("ask", "A", 12)]}
        names = ["A", "B", "C"]
    for n, sc in (("A", A), ("B", B), ("C", C), ("D", D)):
        if n in names:
            s.spawn_actor(sc, 1 if (shape == "2cycle-full-mailbox" and n == "B") else 2)
    for n in names:
        for m in names:
            s.give_ref(n, m)
    if shape in ("2cycle-on_stop", "self-on_stop"):
        s.client("c1", [("stop", "A")], ["A"])
    elif shape in ("self-on_stop-after-run-err", "2cycle-on_stop-after-run-err", "self-on_start"):
        s.client("c1", [("yield",)], ["A"])
    elif shape == "4cycle":
        # the second request (A asks B once more, from its handler) starts after the first is over
        s.client("c1", [("ask", "A", 1), ("ask", "A", 3)], ["A"])
    elif shape == "2cycle-full-mailbox":
        s.client("c0", [("tell", "B", 5), ("tell", "B", 6)], ["B"])
        s.client("c1", [("yield",), ("ask", "A", 1)], ["A"])
    else:
        s.client("c1", [("ask", "A", 1)] if shape != "self-on_run" else [("yield",)], ["A"])
    for n in names:
        s.drop_main(n)
    s.run(120)
    tr = finish(ex, s)
    panics = [e for e in tr.ev if e["ev"] == "panic"]
    dl = [e for e in panics if "Deadlock detected" in str(e.get("msg")) or "eadlock" in str(e.get("msg"))]
    other = [e for e in tr.ev if e["ev"] == "task_panicked" and "eadlock detected" not in str(e.get("msg"))]
    ex.check(P, not other, "after the deliberate deadlock panic another task panicked: %s" % [(e["task"], e["msg"][:80]) for e in other[:2]])
    if P == "C14":
        if shape != "2cycle-full-mailbox":
            ex.check("C14", len(dl) >= 1, "an ask cycle (%s) was closed without the deadlock panic" % shape)
        # (in the full-mailbox shape the two asks race: a cycle - and hence the panic - exists only
        # in the schedules where both are in flight together; what must hold in every schedule is
        # that nobody is left waiting)
        # nobody waits for ever: every task reached an end state, every client op completed
        # (actors that hold references to each other legitimately stay alive and idle; what must
        # not happen is a hook that was entered and is still waiting at quiescence)
        for n in names:
            ent = len([1 for e in tr.ev if e["ev"] == "hook_enter" and e["actor"] == n])
            fin = len([1 for e in tr.ev if e["ev"] == "hook_dropped" and e["actor"] == n])
            ex.check("C14", ent == fin, "a hook of %s is still waiting at quiescence (cycle %s)" % (n, shape))
        for o in tr.ops().values():
            ex.check("C14", o["done"] is not None, "client operation %s never completed" % (o["op"],))
    ex.check(P, graph_edges(s) == [], "no ask is in flight any more but the wait-for graph still holds %s" % graph_edges(s))


def inflight_asks(tr, upto):
    """asks issued by hooks that are in flight just before trace index `upto`: registered at the
    asker (first poll happened, the future neither completed nor dropped nor panicked).
    `answered` = the target's handler for that message has already produced its result, or the
    target's task is over (the ask has failed): such an ask no longer makes anybody wait."""
    st = {}
    for e in tr.ev[:upto]:
        k = e["ev"]
        if k == "action_start" and e.get("kind") in ("ask", "ask_t") and e.get("by"):
            st[e["aid"]] = dict(aid=e["aid"], by=e["by"], target=e["target"], msg=e["msg"], polled=False, over=False)
        elif k == "action_polled" and e["aid"] in st:
            st[e["aid"]]["polled"] = True
        elif k in ("action_done", "action_dropped", "action_panicked") and e.get("aid") in st:
            st[e["aid"]]["over"] = True
    live = [a for a in st.values() if a["polled"] and not a["over"]]
    for a in live:
        tname = tr.w.actors[a["target"]]["task"].name
        a["answered"] = any(
            (e["ev"] == "hook_exit" and e.get("hook") == "handler" and e.get("actor") == a["target"] and e.get("msg") == a["msg"])
            or (e["ev"] in ("task_finished", "task_panicked") and e.get("task") == tname)
            for e in tr.ev[:upto])
    return live


def wait_chain(edges, frm, to):
    seen, todo = set(), [frm]
    while todo:
        x = todo.pop()
        if x == to:
            return True
        if x in seen:
            continue
        seen.add(x)
        todo.extend(e["target"] for e in edges if e["by"] == x)
    return False


def judge_deadlock_panics(tr, ex, P="C15", kid="KF-C15-1"):
    """C15, first sentence: every deadlock panic must be justified by a chain of UNANSWERED
    in-flight asks from the asked actor back to the asking one, at that moment"""
    for i, e in enumerate(tr.ev):
        if e["ev"] != "action_panicked" or "eadlock" not in str(e.get("msg")):
            continue
        caller, callee = e["by"], e["target"]
        if caller == callee:
            continue
        live = [a for a in inflight_asks(tr, i) if a["aid"] != e["aid"]]
        if wait_chain([a for a in live if not a["answered"]], callee, caller):
            continue                                    # a real cycle of unanswered asks
        stale = [a for a in live if a["answered"]]
        if wait_chain(live, callee, caller):
            # the only path back runs through an ask that HAS been answered (or has failed) but whose
            # asker has not been polled since, so its wait-for edge is still registered
            ex.known_finding(kid, P, "deadlock panic in %s asking %s without a cycle of unanswered asks: the path back runs through %s, "
                             "already answered but not yet collected by the asker" % (caller, callee, ["%s->%s(msg %s)" % (a["by"], a["target"], a["msg"]) for a in stale]))
            continue
        ex.check(P, False, "deadlock panic in %s asking %s, but no chain of in-flight asks leads from %s back to %s (in flight: %s)" % (
            caller, callee, callee, caller, ["%s->%s" % (a["by"], a["target"]) for a in live]))


def deadlock_reply_window(prog, ex, P, tier):
    """C15's "every interleaving of reply delivery with the callee's next message": the callee B
    answers A's ask and goes on to a message that was queued behind it and whose handler asks A
    back, possibly before A's task has collected the reply.  Also with two concurrent asks of one
    hook (join!) where the later-registered one is answered first."""
    shape = pick(ex, ["queued-reverse", "join-fast-then-reverse"] + (["join-from-handler"] if tier != "quick" else []), "shape")
    s = Sim(prog, ex)
    w = s.w
    A, B, C = Script("A"), Script("B"), Script("C")
    names = ["A", "B"]
    if shape == "queued-reverse":
        A.handler_actions = {1: [("ask", "B", 11)]}
        B.handler_actions = {5: [("ask", "A", 12)]}
        s.spawn_actor(A, 2)
        s.spawn_actor(B, 2)
        clients = [("c1", [("ask", "A", 1)], ["A"]), ("c2", [("ask", "B", 5)], ["B"])]
    elif shape == "join-fast-then-reverse":
        # A's idle hook has two asks in flight at once; C answers, B does not yet; then C asks A
        names = ["A", "B", "C"]
        A.on_run = [("false", 0)]
        A.on_run_actions = [("join", ("ask", "B", 11), ("ask", "C", 21))]
        B.handler_yields = {11: "tick"}
        C.handler_actions = {25: [("ask", "A", 12)]}
        for n_, sc_ in (("A", A), ("B", B), ("C", C)):
            s.spawn_actor(sc_, 2)
        clients = [("c2", [("ask", "C", 25)], ["C"])]
        ticks = [1]
        s.extra_actions.append((lambda: ticks[0] > 0 and not any(t.state == "running" and t.name.startswith("client:") for t in w.tasks),
                                lambda: (ticks.__setitem__(0, 0), w.advance(1)), "clock-advance"))
    else:
        names = ["A", "B", "C"]
        A.handler_actions = {1: [("join", ("ask", "B", 11), ("ask", "C", 21))]}
        B.handler_yields = {11: 1}
        C.handler_actions = {25: [("ask", "A", 12)]}
        for n_, sc_ in (("A", A), ("B", B), ("C", C)):
            s.spawn_actor(sc_, 2)
        clients = [("c1", [("ask", "A", 1)], ["A"]), ("c2", [("ask", "C", 25)], ["C"])]
    for n_ in names:
        for m_ in names:
            if n_ != m_:
                s.give_ref(n_, m_)
    for nm, ops, refs in clients:
        s.client(nm, ops, refs)
    for n_ in names:
        s.drop_main(n_)
    s.run(120)
    tr = finish(ex, s)
    judge_deadlock_panics(tr, ex, P)
    all_done = all(o["done"] is not None for o in tr.ops().values()) and all(t.state != "running" for t in w.tasks)
    if all_done:
        ex.check(P, graph_edges(s) == [], "every ask has finished but the wait-for graph still holds %s" % graph_edges(s))


def deadlock_sound(prog, ex, P, tier):
    """acyclic-in-time ask patterns over a cyclic topology, asks ending by reply / timeout /
    callee death / cancellation: no deadlock panic, empty graph afterwards; non-actor callers
    are never tracked"""
    shape = pick(ex, ["a-asks-b-then-b-asks-a", "ask-times-out-then-reverse", "callee-dies-then-reverse", "fan-out", "non-actor-callers",
                      "caller-panics-mid-ask-then-reverse", "timeout-while-callee-busy-then-reverse"], "shape")
    s = Sim(prog, ex)
    w = s.w
    A, B = Script("A"), Script("B")
    if shape == "a-asks-b-then-b-asks-a":
        A.handler_actions = {1: [("ask", "B", 11)]}          # A -> B, answered
        B.handler_actions = {5: [("ask", "A", 12)]}          # later: B -> A
        ops = [("ask", "A", 1), ("ask", "B", 5)]
    elif shape == "ask-times-out-then-reverse":
        A.handler_actions = {1: [("ask_t", "B", 11, 3)]}     # B is slow: the ask times out
        B.handler_yields = {11: "tick"}
        B.handler_actions = {5: [("ask", "A", 12)]}
        ops = [("ask", "A", 1), ("ask", "B", 5)]
    elif shape == "timeout-while-callee-busy-then-reverse":
        # B is inside a handler (5) when A's timed ask arrives and stays QUEUED at B; the ask
        # times out; still inside 5, B asks A.  The timed-out ask must not count.
        A.handler_actions = {1: [("ask_t", "B", 11, 3)]}
        B.handler_actions = {5: [("yield",), ("yield",), ("ask", "A", 12)]}
        ops = [("tell", "B", 5), ("ask", "A", 1)]
    elif shape == "callee-dies-then-reverse":
        A.handler_actions = {1: [("ask", "B", 11)]}
        B.handler_panics = {11}
        ops = [("ask", "A", 1), ("ask", "A", 2)]
    elif shape == "fan-out":
        A.handler_actions = {1: [("ask", "B", 11), ("ask", "B", 13)]}
        ops = [("ask", "A", 1), ("ask", "B", 5)]
    elif shape == "caller-panics-mid-ask-then-reverse":
        # A panics in its handler while its ask to B is still in flight; later B asks the dead A
        A.handler_actions = {1: [("ask_then_panic", "B", 11)]}
        B.handler_yields = {11: 1}
        B.handler_actions = {5: [("ask", "A", 12)]}
        ops = [("ask", "A", 1), ("ask", "B", 5)]
    else:
        ops = [("ask", "A", 1), ("ask", "B", 5)]
    s.spawn_actor(A, 2)
    s.spawn_actor(B, 2)
    s.give_ref("A", "B")
    s.give_ref("B", "A")
    # acyclic *in time*: the second request starts only after the first has completed
    s.client("c1", ops, ["A", "B"])
    if shape == "non-actor-callers":
        s.client("c2", [("ask", "B", 6), ("ask", "A", 7)], ["A", "B"])
    s.drop_main("A")
    s.drop_main("B")
    if shape in ("ask-times-out-then-reverse", "timeout-while-callee-busy-then-reverse"):
        ticks = [3]
        # time only passes once the timed ask is in flight (keeps the schedule space small)
        s.extra_actions.append((lambda: ticks[0] > 0 and any(e["ev"] == "action_start" for e in ex.events),
                                lambda: (ticks.__setitem__(0, ticks[0] - 1), w.advance(5)), "clock-advance"))
    s.run(120)
    tr = finish(ex, s)
    dl = [e for e in tr.ev if e["ev"] == "panic" and "eadlock" in str(e.get("msg"))]
    judge_deadlock_panics(tr, ex, "C15")
    judged = [e for e in tr.ev if e["ev"] == "action_panicked" and "eadlock" in str(e.get("msg"))]
    ex.check("C15", len(dl) <= len(judged), "deadlock panic outside a scripted ask (%s): %s" % (shape, [e.get("msg") for e in dl]))
    if shape not in ("non-actor-callers", "timeout-while-callee-busy-then-reverse"):
        # these patterns are acyclic in time: no ask is in flight when the reverse one starts
        # (in the busy-callee shape the reverse ask may also start BEFORE the timeout fired: then
        # the cycle is real and the panic justified - the trace oracle above tells the two apart)
        ex.check("C15", not dl or any(e["ev"] == "known_finding" for e in tr.ev), "deadlock panic without a cycle of unanswered asks (%s): %s" % (shape, [e.get("msg") for e in dl]))
    all_done = all(o["done"] is not None for o in tr.ops().values()) and all(t.state != "running" for t in w.tasks)
    if all_done:
        ex.check("C15", graph_edges(s) == [], "every ask has finished but the wait-for graph still holds %s" % graph_edges(s))
    else:
        ex.event(ev="note", what="path ends with work in flight (virtual clock exhausted); residue check not applicable")
    if shape == "non-actor-callers":
        ex.check("C15", all(e["ev"] != "graph_insert" for e in tr.ev), "a non-actor caller was tracked")


def has_path_fn(prog, ex, P, tier):
    """function level: has_path(G, from, to) == "to is reachable from `from` in >= 1 steps" for
    EVERY functional graph over N keys (presence and target of every key symbolic) and every
    from/to; decided by z3 on every path of the interpreted loop"""
    # actor ids are arbitrary u64: the key universe contains ids that collide modulo 64 / 128 (a
    # hash, bitmask or bloom-filter style shortcut in the walk shows up as a wrong answer)
    KEYS = [1, 2, 65] if tier == "quick" else [1, 2, 65, 130]
    SINK = 4099                                    # an id that waits for nobody
    N = len(KEYS)
    s = Sim(prog, ex)
    w, it = s.w, s.it
    m = w.HMap()
    m.sym = []
    pres, tgt = {}, {}
    # the value type of the graph is read from has_path's signature in the current tree:
    # HashMap<u64, Identity> today; a tuple or struct that *contains* the target Identity as its
    # first field is wrapped accordingly; anything else is outside this obligation
    hp = [b for b in prog.bodies.values() if b.name.split("::")[-1] == "has_path" and b.arg_types]
    vty = ""
    if hp:
        mm = re.search(r"HashMap<u64,\s*(.*?)>\s*$", hp[0].arg_types[0].strip().replace("std::collections::", ""))
        vty = mm.group(1).strip() if mm else ""
    if not vty and hp:
        # a type alias: look at the static
        st_ = [b for b in prog.bodies.values() if b.header.startswith("static ") and "WAIT_FOR" in b.name]
        mm = re.search(r"HashMap<u64,\s*(.*?)>>>", st_[0].header.replace("std::collections::", "")) if st_ else None
        vty = mm.group(1).strip() if mm else ""

    def mkval(ident):
        t = vty.replace("crate::", "")
        if t in ("Identity", ""):
            return ident
        if t.startswith("(Identity,") or t.startswith("(Identity ,"):
            rest = split_top(t[1:-1])[1:]
            return Agg("tuple", "", [ident] + [IntV(ex.sym("aux_%s_%d" % (ident.fields[0].v, j), 64), 64) for j in range(len(rest))])
        raise Unsupported("wait-for graph value type %r (has_path_fn builds Identity / (Identity, ..) values)" % vty)
    def member(x):
        return z3.Or([x == kk for kk in KEYS + [SINK]])
    for k in KEYS:
        pres[k] = z3.Bool("present_%d" % k)
        tgt[k] = ex.sym("target_%d" % k, 64)
        ex.assume(member(tgt[k]))
        m.sym.append((k, pres[k], mkval(Agg("struct", "Identity", [IntV(tgt[k], 64), "T"]))))
    frm = ex.sym("from", 64)
    to = ex.sym("to", 64)
    ex.assume(z3.And(member(frm), member(to)))
    r = it.call_path("has_path", [Ref(Cell(m, "graph"), (), False), IntV(frm, 64), IntV(to, 64)])

    # reference: iterate the partial function N times
    def step(x):
        """(defined, next)"""
        d = z3.BoolVal(False)
        nx = z3.BitVecVal(0, 64)
        for k in KEYS:
            hit = z3.And(x == k, pres[k])
            d = z3.Or(d, hit)
            nx = z3.If(hit, tgt[k], nx)
        return d, nx
    reach = z3.BoolVal(False)
    cur, alive = frm, z3.BoolVal(True)
    for _ in range(N):
        d, nx = step(cur)
        alive = z3.And(alive, d)
        reach = z3.Or(reach, z3.And(alive, nx == to))
        cur = nx
    res = r if isinstance(r, bool) else r
    ex.check("C14", (reach == res) if not isinstance(res, bool) else (reach if res else z3.Not(reach)),
             "has_path disagrees with reachability in the wait-for graph (N=%d)" % N)
    ex.event(ev="has_path", result=str(res), N=N)
    ex.steps = it.steps
    ex.sim = s


def burst(prog, ex, P, tier):
    """a long back-to-back burst (thresholds such as batch limits only show beyond a handful of
    messages): one sender, 12 (thorough 20) tells into a mailbox large enough to hold them all,
    periodic or one-shot on_run, optionally a kill / stop in the middle"""
    n = 12 if tier == "quick" else 20
    mode = pick(ex, ["periodic-on_run", "default-on_run", "periodic+kill", "default+stop", "small-cap-pending-on_run", "cap8-parked-sender"] + (["small-cap-pending-on_run+stop"] if tier != "quick" else []), "mode")
    sc = Script("A")
    s = Sim(prog, ex)
    if mode == "cap8-parked-sender":
        # capacity 8 (the smallest where capacity/4 > 1): the mailbox is full, one more sender is
        # parked, the actor takes exactly ONE message and stalls: the parked send must go through
        sc.handler_yields = {"*": "tick"}
        s.spawn_actor(sc, 8)
        s.client("c1", [("tell", "A", i + 1) for i in range(10)], ["A"], keep_refs=True)
        s.drop_main("A")
        ticks = [1]
        s.extra_actions.append((lambda: ticks[0] > 0 and any(e["ev"] == "op_start" and e["op"][2] == 10 for e in ex.events),
                                lambda: (ticks.__setitem__(0, 0), s.w.advance(1)), "clock-advance"))
        s.run(120)
        tr = finish(ex, s)
        apply(tr, P, cap=8)
        if P == "C09":
            for o in tr.ops().values():
                ex.check("C09", o["done"] is not None or tr.w.actors["A"]["mailbox"].free == 0,
                         "tell(%s) is still waiting although the mailbox has a free slot" % o["op"][2])
        return
    if mode.startswith("small-cap"):
        # more messages than the mailbox holds, back to back, while the idle hook waits for an
        # event that never comes (no clock advance): every message, the ask and the stop must
        # still be served
        sc.on_run_default = ("true", "tick")
        sc.handler_yields = {"*": 1}          # the sender can refill the mailbox while a handler is suspended
        s.spawn_actor(sc, 2)
        s.client("c1", [("tell", "A", i + 1) for i in range(3 if tier == "quick" else 4)] + [("ask", "A", 100)], ["A"], keep_refs=(not mode.endswith("+stop")))
        if mode.endswith("+stop"):
            s.client("cs", [("yield",), ("stop", "A")], ["A"])
        s.drop_main("A")
        s.run(160)
        tr = finish(ex, s)
        apply(tr, P, cap=2)
        if P in ("C07", "C01", "C08"):
            try:
                M.mon_c03(tr)
            except Violation as e:
                raise Violation(P, "a referenced actor with a pending idle hook stopped serving its mailbox: " + e.msg, e.detail)
            for o in tr.ops().values():
                if o["op"][0] == "ask":
                    ex.check(P, M.rcode(o["result"]) == "ok" or mode.endswith("+stop"), "a referenced, never-stopped actor stopped answering: %s" % o["result"])
            M.mon_c07(tr, "A", expect_alive=(not mode.endswith("+stop")))
        return
    if mode.startswith("periodic"):
        sc.on_run_default = ("true", "tick")
        ticks = [2]
        s.extra_actions.append((lambda: ticks[0] > 0, lambda: (ticks.__setitem__(0, ticks[0] - 1), s.w.advance(1)), "clock-advance"))
    s.spawn_actor(sc, n + 2)
    s.client("c1", [("tell", "A", i + 1) for i in range(n)] + [("ask", "A", 100)], ["A"])
    if mode.endswith("+kill"):
        s.client("ck", [("kill", "A")], ["A"])
    if mode.endswith("+stop"):
        s.client("cs", [("stop", "A")], ["A"])
    s.drop_main("A")
    allow_time(s, ex)
    s.run(120)
    tr = finish(ex, s)
    apply(tr, P, cap=n + 2)


# ---- blocking API (C17) ----------------------------------------------------------------------
def blocking(prog, ex, P, tier):
    """blocking_tell / blocking_ask (without and with timeout) and the deprecated aliases issued
    from a "thread" (a task whose whole call is one step while everybody else keeps being
    scheduled), mixed with an async sender; actor live / slow / full mailbox / stopped"""
    v = pick(ex, [
        dict(cap=1, hy=0, ops=[("btell", "A", 1), ("bask", "A", 2)], other=[("tell", "A", 3)], end="drop"),
        dict(cap=1, hy=1, ops=[("btell", "A", 1), ("btell", "A", 2), ("bask", "A", 3)], other=None, end="drop"),
        dict(cap=2, hy=0, ops=[("bask", "A", 1), ("btell", "A", 2)], other=[("ask", "A", 3)], end="stop"),
        dict(cap=1, hy=0, ops=[("tell_blocking", "A", 1, 5), ("ask_blocking", "A", 2, 5)], other=None, end="drop"),
        dict(cap=1, hy=0, ops=[("btell_t", "A", 1, 50), ("bask_t", "A", 2, 50)], other=[("tell", "A", 3)], end="drop"),
        dict(cap=1, hy="tick", ops=[("bask_t", "A", 1, 5)], other=None, end="drop"),            # actor never answers in time
        dict(cap=1, hy="tick", ops=[("btell", "A", 1), ("btell_t", "A", 2, 5), ("btell_t", "A", 3, 5)], other=None, end="drop"),   # mailbox stays full
        dict(cap=1, hy=0, ops=[("btell", "A", 1), ("yield",), ("btell", "A", 2), ("bask", "A", 3), ("btell_t", "A", 4, 9), ("bask_t", "A", 5, 9)], other=None, end="killfirst"),
        # one deadline for the whole call: the mailbox frees up at t=3 (inside the timeout of 5), the reply would come at t=7
        dict(cap=1, hy={1: ("sleep", 3), 7: ("sleep", 1), 2: ("sleep", 3)}, ops=[("btell", "A", 1), ("btell", "A", 7), ("bask_t", "A", 2, 5)], other=None, end="drop"),
        dict(cap=1, hy={1: ("sleep", 3), 7: ("sleep", 1), 2: ("sleep", 3)}, ops=[("btell", "A", 1), ("btell", "A", 7), ("btell_t", "A", 2, 5), ("bask_t", "A", 3, 2)], other=None, end="drop"),
        # the largest timeout there is
        dict(cap=2, hy=0, ops=[("btell_t", "A", 1, "MAX"), ("bask_t", "A", 2, "MAX")], other=None, end="drop"),
        # called from spawn_blocking (a thread that HAS a runtime handle): full mailbox, slow actor, then stop
        dict(cap=1, hy=1, ops=[("btell", "A", 1), ("btell", "A", 2), ("btell", "A", 3)], other=None, end="stop-after", ctx="spawn_blocking"),
        dict(cap=1, hy=1, ops=[("btell", "A", 1), ("btell", "A", 2), ("bask", "A", 3)], other=[("tell", "A", 4)], end="drop", ctx="spawn_blocking"),
    ] + ([
        # Some(Duration::ZERO) is a deadline, not "no timeout": full mailbox / actor that never answers in time
        dict(cap=1, hy="tick", ops=[("btell", "A", 1), ("btell_t", "A", 2, 0), ("bask_t", "A", 3, 0)], other=None, end="drop"),
        dict(cap=1, hy="tick", ops=[("bask_t", "A", 1, 0)], other=None, end="drop"),
    ] if P == "C17" else []), "variant")
    PP = P if P in ("C16", "C02", "C01", "C13", "C10") else "C17"
    s = Sim(prog, ex)
    w = s.w
    s.spawn_actor(Script("A", handler_yields=(v["hy"] if isinstance(v["hy"], dict) else {"*": v["hy"]})), v["cap"])
    ops_ = list(v["ops"]) + ([("stop", "A")] if v["end"] == "stop-after" else [])
    th = s.client("thread", ops_, ["A"])
    th.in_runtime = v.get("ctx") == "spawn_blocking"
    if P == "C16":
        # the same calls through Box<dyn TellHandler> / Box<dyn AskHandler>
        for i, op in enumerate(v["ops"]):
            if op[0] in ("btell", "bask", "btell_t", "bask_t"):
                th.routes[i] = pick(ex, ["from_ref", "clone_boxed", "weak_upgrade"], "route%d" % i)
    if v["other"]:
        s.client("c2", v["other"], ["A"])
    if v["end"] == "stop":
        s.client("cs", [("stop", "A")], ["A"])
    if v["end"] == "killfirst":
        s.client("ck", [("kill", "A")], ["A"])
    s.drop_main("A")
    if v["hy"] == "tick":
        ticks = [3]
        s.extra_actions.append((lambda: ticks[0] > 0 and False, lambda: None, "unused"))
    s.run(120)
    tr = finish(ex, s)
    for mon in (M.mon_c01, M.mon_c02, M.mon_c03, M.mon_c13):
        try:
            mon(tr)
        except Violation as e:
            raise Violation(PP, "blocking API%s: %s: %s" % (" through erased handles" if P == "C16" else "", e.prop, e.msg), e.detail)
    ops = tr.ops()
    for o in ops.values():
        if len(o["op"]) > 3 and o["op"][3] == "MAX":
            o["op"] = list(o["op"][:3]) + [w.DURATION_MAX_NS]
    # a panic in the CALLER of a blocking function is never an acceptable outcome
    thr = [t for t in w.tasks if t.name == "client:thread"]
    ex.check(PP, not thr or thr[0].state != "panicked", "the calling thread panicked inside the blocking API: %s" % (thr[0].panic_msg if thr else ""))
    for o in ops.values():
        k = o["op"][0]
        if k not in ("btell", "bask", "btell_t", "bask_t", "tell_blocking", "ask_blocking"):
            continue
        res = o["result"]
        has_to = k in ("btell_t", "bask_t")
        if has_to:
            ex.check(PP, res != "BLOCKED-FOREVER", "%s with a timeout never returns" % k)
            # returns by the deadline: the virtual clock at return is at most start + timeout
            start_now = tr.ev[o["start"]].get("now_raw", 0)
            end_now = tr.ev[o["done"]].get("now_raw", 0) if o["done"] is not None else None
            if end_now is not None and isinstance(start_now, int) and isinstance(end_now, int):
                ex.check(PP, end_now <= start_now + o["op"][3], "%s returned at t=%d, deadline was t=%d" % (k, end_now, start_now + o["op"][3]))
                if M.rcode(res) == "timeout":
                    ex.check(PP, end_now >= start_now + o["op"][3], "%s reported Timeout before its deadline" % k)
        if k in ("tell_blocking", "ask_blocking"):
            ex.check(PP, len(w.timeouts) == 0, "the deprecated alias did not ignore its timeout argument")
            ex.check(PP, M.rcode(res) != "timeout", "the deprecated alias timed out")
        if k in ("bask", "bask_t", "ask_blocking") and M.rcode(res) == "ok":
            ex.check(PP, M.okval(res) == M.reply_of(o["op"][2]), "blocking ask returned %s, not the reply to its request" % res)
    # timers created by the timeout variants carry the caller's duration
    exp = [o["op"][3] for o in sorted(ops.values(), key=lambda x: x["start"]) if o["op"][0] in ("btell_t", "bask_t") and not str(o["result"]).startswith("skipped")]
    ex.check(PP, list(w.timeouts) == exp[:len(w.timeouts)] and len(w.timeouts) == len(exp), "timers %s, callers passed %s" % (list(w.timeouts), exp))


# ---- feature equivalence (C18) -----------------------------------------------------------------
def projection(tr):
    """what a user can observe, per component (no global order): each client's results in
    program order, each actor's hook sequence with arguments/outcomes, each task's end state,
    the handling order, dead letters"""
    w = tr.w
    out = []
    for (c, i), o in sorted(tr.ops().items()):
        out.append(("op", c, i, tuple(map(str, o["op"])), str(o["result"]) if o["done"] is not None else "PENDING"))
    for a in sorted(w.actors):
        seq = tuple((e["ev"], e["hook"], str(e.get("msg", e.get("killed", e.get("out", ""))))) for e in tr.ev
                    if e["ev"] in ("hook_enter", "hook_exit") and e.get("actor") == a)
        out.append(("hooks", a, seq))
        t = w.actors[a]["task"]
        out.append(("end", a, t.state, w.describe(t.result) if t.state == "finished" else ""))
    out.append(("dead", tuple(sorted((e["op"], e["reason"]) for e in tr.ev if e["ev"] == "dead_letter"))))
    out.append(("on_tell_result", tuple(sorted(str(e["result"]) for e in tr.ev if e["ev"] == "on_tell_result"))))
    return tuple(out)


def feature_suite(prog, ex, P, tier):
    v = pick(ex, ["tell-ask-drop", "two-clients-stop", "kill", "on_run", "timeout", "on_run_err", "handler_panic", "on_start_err", "peer-asks", "reply-window", "peer-tell-full"], "variant")
    s = Sim(prog, ex)
    w = s.w
    sc = Script("A")
    if v == "peer-tell-full":
        # B (capacity 1) waits, with a timeout, for A; B's only slot is taken; A's handler tells B.
        # Nobody asks in a cycle: A's tell just waits for the slot that frees when B's ask times out.
        sc.handler_actions = {1: [("yield",), ("tell", "B", 21)]}
        sb = Script("B")
        sb.handler_actions = {5: [("ask_t", "A", 12, 3)]}
        s.spawn_actor(sc, 2)
        s.spawn_actor(sb, 1)
        s.give_ref("A", "B")
        s.give_ref("B", "A")
        s.client("c1", [("tell", "A", 1), ("tell", "B", 5), ("tell", "B", 20)], ["A", "B"])
        s.drop_main("A")
        s.drop_main("B")
        ticks = [1]
        s.extra_actions.append((lambda: ticks[0] > 0 and any(e["ev"] == "action_start" and e.get("kind") == "tell" for e in ex.events),
                                lambda: (ticks.__setitem__(0, 0), w.advance(5)), "clock-advance"))
        s.run(120)
        tr = finish(ex, s)
        ex.projection = projection(tr)
        return
    if v == "reply-window":
        # no ask cycle at any time: B answers A's ask and only then handles a message (queued
        # behind it) whose handler asks A.  See KF-C15-1 / KF-C18-1.
        sc.handler_actions = {1: [("ask", "B", 11)]}
        sb = Script("B")
        sb.handler_actions = {5: [("ask", "A", 12)]}
        s.spawn_actor(sc, 2)
        s.spawn_actor(sb, 2)
        s.give_ref("A", "B")
        s.give_ref("B", "A")
        s.client("c1", [("ask", "A", 1)], ["A"])
        s.client("c2", [("ask", "B", 5)], ["B"])
        s.drop_main("A")
        s.drop_main("B")
        s.run(120)
        tr = finish(ex, s)
        # a REAL cycle (both asks unanswered and in flight) is outside C18's premise: such paths
        # are left out of the comparison in every build
        real = False
        for i, e in enumerate(tr.ev):
            if e["ev"] == "action_polled":
                live = [a for a in inflight_asks(tr, i + 1) if not a["answered"]]
                if any(wait_chain(live, a["target"], a["by"]) for a in live):
                    real = True
        if real:
            ex.projection = None
            return
        judge_deadlock_panics(tr, ex, "C18", "KF-C18-1")
        ex.projection = None if ex.known else projection(tr)
        return
    if v == "peer-asks":
        # A's handler asks B with a timeout that expires (B is slow), later B's handler asks A:
        # no ask cycle at any time
        sc.handler_actions = {1: [("ask_t", "B", 11, 3)]}
        sb = Script("B", handler_yields={11: "tick"})
        sb.handler_actions = {5: [("ask", "A", 12)]}
        s.spawn_actor(sc, 2)
        s.spawn_actor(sb, 2)
        s.give_ref("A", "B")
        s.give_ref("B", "A")
        s.client("c1", [("ask", "A", 1), ("ask", "B", 5)], ["A", "B"])
        s.drop_main("A")
        s.drop_main("B")
        ticks = [1]
        s.extra_actions.append((lambda: ticks[0] > 0 and any(e["ev"] == "hook_enter" and e.get("msg") == 11 for e in ex.events),
                                lambda: (ticks.__setitem__(0, ticks[0] - 1), w.advance(5)), "clock-advance"))
        s.run(120)
        tr = finish(ex, s)
        ex.projection = projection(tr)
        return
    cap = 1
    if v == "on_run":
        sc.on_run = [("true", 1), ("false", 0)]
    if v == "timeout":
        sc.handler_yields = {"*": "tick"}
    if v in ("on_run_err", "handler_panic", "on_start_err"):
        sc = script_for(v, 0)
    s.spawn_actor(sc, cap)
    if v == "tell-ask-drop":
        s.client("c1", [("tell", "A", 1), ("ask", "A", 2)], ["A"])
    elif v == "two-clients-stop":
        s.client("c1", [("tell", "A", 1)], ["A"])
        s.client("c2", [("ask", "A", 2)], ["A"])
        s.client("cs", [("stop", "A")], ["A"])
    elif v == "kill":
        s.client("c1", [("tell", "A", 1), ("ask", "A", 2)], ["A"])
        s.client("ck", [("kill", "A")], ["A"])
    elif v == "on_run":
        s.client("c1", [("tell", "A", 1), ("yield",), ("ask", "A", 2)], ["A"])
    elif v == "timeout":
        s.client("c1", [("ask_t", "A", 1, 3)], ["A"])
        ticks = [2]
        s.extra_actions.append((lambda: ticks[0] > 0 and any(e["ev"] == "op_start" for e in ex.events),
                                lambda: (ticks.__setitem__(0, ticks[0] - 1), w.advance(2)), "clock-advance"))
    else:
        s.client("c1", [("ask", "A", 1), ("ask", "A", 2)], ["A"])
    s.drop_main("A")
    s.run(90)
    tr = finish(ex, s)
    ex.projection = projection(tr)


def ask_join_scn(prog, ex, P, tier):
    """ask_join: the handler returns the JoinHandle of a task it spawned; the task finishes with
    a (symbolic) value, panics or is aborted at an arbitrary moment; or the actor is gone"""
    how = pick(ex, ["finish", "panic", "abort", "actor-killed"], "task-end")
    s = Sim(prog, ex)
    w = s.w
    s.spawn_actor(Script("A"), 1)
    val = ex.sym("task_output", 8)
    s.client("c1", [("ask_join", "A", 5)], ["A"])
    if how == "actor-killed":
        s.client("ck", [("kill", "A")], ["A"])
    s.drop_main("A")

    def pending():
        return [t for t in getattr(w, "spawned_by_handlers", []) if t.state == "running"]

    def end():
        w.finish_external_task(pending()[0], "finish" if how == "actor-killed" else how, IntV(val, 8))
    s.extra_actions.append((lambda: bool(pending()), end, "spawned-task-ends"))
    s.run(60)
    tr = finish(ex, s)
    for o in tr.ops().values():
        ex.check("C03", o["done"] is not None, "ask_join still pending at quiescence")
        res = s.clients["c1"].results[0]
        spawned = getattr(w, "spawned_by_handlers", [])
        if not spawned:
            ex.check("C03", res.variant == "Err", "ask_join returned Ok although the handler never ran")
            continue
        if how in ("finish", "actor-killed"):
            ex.check("C03", res.variant == "Ok", "ask_join failed although the spawned task finished: %s" % w.describe(res))
            if res.variant == "Ok":
                ex.check("C03", res.fields[0].z() == val, "ask_join returned a value that is not the task's output")
        else:
            ex.check("C03", res.variant == "Err" and res.fields[0].variant == "Join", "ask_join did not report the task's failure as Error::Join: %s" % w.describe(res))
            if res.variant == "Err" and res.fields[0].variant == "Join":
                je = res.fields[0].fields[1]
                ex.check("C03", je.fields[1] is (how == "panic"), "the JoinError carried by Error::Join is not the task's own (panic flag %s, task ended by %s)" % (je.fields[1], how))
                ex.check("C03", w.describe(je.fields[0]) == spawned[0].id, "Error::Join carries the JoinError of another task")


# ---- macros (C19) ----------------------------------------------------------------------------
def macro_runtime(prog, ex, P, tier):
    """runtime half: after a tell - and never after an ask - on_tell_result is invoked exactly
    once with the handler's return value"""
    s = Sim(prog, ex)
    s.spawn_actor(Script("A", handler_yields={"*": pick(ex, [0, 1], "handler-yields")}), 2)
    s.client("c1", [("tell", "A", 1), ("ask", "A", 2), ("tell", "A", 3)], ["A"])
    s.client("c2", [("ask", "A", 4)], ["A"])
    s.drop_main("A")
    s.run(80)
    tr = finish(ex, s)
    tells = [e["msg"] for _, e in tr.hook("A", "handler", "hook_exit") if e["msg"] in (1, 3)]
    otr = [e["result"] for e in tr.ev if e["ev"] == "on_tell_result"]
    ex.check("C19", sorted(otr) == sorted(M.reply_of(m) for m in tells), "on_tell_result calls %s, completed tell handlers returned %s" % (otr, [M.reply_of(m) for m in tells]))
    # order: each on_tell_result directly follows its handler's completion
    for i, e in enumerate(tr.ev):
        if e["ev"] == "on_tell_result":
            prev = [x for x in tr.ev[:i] if x["ev"] == "hook_exit" and x.get("hook") == "handler"]
            ex.check("C19", bool(prev) and prev[-1]["out"] == e["result"] and prev[-1]["msg"] in (1, 3), "on_tell_result(%s) does not follow the tell handler that produced it" % e["result"])


def macro_corpus(prog, ex, P, tier):
    """macro half: every program of the generated corpus (expanded by the real macros), symbolic
    actor state and message payloads, a tell and an ask per handler"""
    from . import corpus
    progs = corpus.programs()
    p = progs[ex.choose(len(progs), "program")]
    s = Sim(prog, ex)
    w = s.w
    acc0 = ex.sym("acc0", 32)
    n, kind = p["name"], p["kind"]
    if kind in ("struct",):
        args = Agg("struct", n, [IntV(acc0, 32)])
    elif kind == "tuple":
        args = Agg("struct", n, [IntV(acc0, 32)])
    elif kind == "enum":
        args = mk_enum(n, pick(ex, ["On", "Off"], "variant"), IntV(acc0, 32))
    else:
        args = Agg("struct", n, [IntV(acc0, 32), IntV(9, 8)])
    s.spawn_value("A", args, 2)
    h0, h1 = p["handlers"]
    ms = [ex.sym("m%d" % i, 8) for i in range(4)]
    plan = [("tellv", h0, ms[0]), ("askv", h1, ms[1]), ("tellv", h1, ms[2]), ("askv", h0, ms[3])]
    ops = [(k, "A", Agg("struct", h["msg"], [IntV(m, 8)])) for k, h, m in plan]
    c1 = s.client("c1", ops, ["A"])
    s.drop_main("A")
    s.run(80)
    ex.steps = s.it.steps
    ex.sim = s
    if s.bound_hit:
        raise Unsupported("bound hit")
    # --- expectations, stated independently of the macro -------------------------------------
    acc = acc0
    exp_logs = 0
    for (k, h, m), res in zip(plan, c1.results):
        acc = acc * 31 + (z3.ZeroExt(24, m) + h["k"])
        odd = (m & 1) == 1
        if k == "askv":
            ex.check("C19", isinstance(res, Agg) and res.variant == "Ok", "ask through the generated Message impl failed: %s" % w.describe(res))
            v = res.fields[0]
            if h["ret"] == "u32":
                ex.check("C19", isinstance(v, IntV) and v.bits == 32, "Reply of a `-> u32` handler is not a u32: %r" % (v,))
                ex.check("C19", v.z() == acc, "handle() does not return what the method computes")
            elif h["ret"] == "unit":
                ex.check("C19", is_unit(v), "Reply of a handler without return type is not ()")
            elif h["ret"] in ("result", "std_result", "path1", "selfpath", "alias"):
                is_err = ex.branch_bool(odd)
                ex.check("C19", isinstance(v, Agg) and v.name == "Result" and v.variant == ("Err" if is_err else "Ok"), "Reply of a Result handler: %s (payload odd: %s)" % (w.describe(v), is_err))
                if not is_err:
                    ex.check("C19", v.fields[0].z() == acc, "handle() does not return what the method computes")
            else:
                is_none = ex.branch_bool(odd)
                ex.check("C19", isinstance(v, Agg) and v.name == "Option" and v.variant == ("None" if is_none else "Some"), "Reply of an Option handler: %s" % w.describe(v))
        else:
            ex.check("C19", isinstance(res, Agg) and res.variant == "Ok", "tell failed: %s" % w.describe(res))
            if corpus.expect_log(h, True):
                # documented table: this handler logs exactly its Err values after a tell
                if ex.branch_bool(odd):
                    exp_logs += 1
    logs = [e for e in ex.events if e["ev"] == "log" and e["level"] == "error"]
    ex.check("C19", len(logs) == exp_logs, "%d error events logged by generated on_tell_result code, the decision table says %d (program %s: %s)" % (
        len(logs), exp_logs, n, [(h["ret"], h["opt"]) for h in p["handlers"]]))
    t = w.actors["A"]["task"]
    ex.check("C19", t.state == "finished" and t.result.variant == "Completed", "derive(Actor) actor did not complete: %s" % w.describe(t.result))
    if t.state == "finished" and t.result.variant == "Completed":
        act = t.result.fields[0]
        fin = act.fields[0]
        ex.check("C19", fin.z() == acc, "final actor state differs from applying the four handler methods in order")
        if kind == "enum":
            ex.check("C19", act.variant == args.variant, "derive(Actor) on_start changed the enum variant")
        if kind == "generic":
            ex.check("C19", w.describe(act.fields[1]) == 9, "derive(Actor) on_start changed a field")
