"""Scenario families and property monitors for the MIR engine.

A *scenario* builds a system (actors spawned through the real `spawn*`, client tasks issuing
real `ActorRef` operations), lets the symbolic scheduler run it to quiescence and then hands the
event trace to the monitors of one property.  Enumerated parameters (capacity, hook outcomes,
termination cause, handler duration) are `ex.choose` decisions, i.e. every combination is a
path; timeouts and clock increments are z3 bit-vectors."""
import z3

from .sim import Sim
from .values import *  # noqa: F401,F403
from .world import Script


def reply_of(i):
    return i ^ 0x5A


# =====================================================================================
# trace digestion
# =====================================================================================
class Trace:
    def __init__(self, ex, sim):
        self.ex, self.sim = ex, sim
        self.ev = ex.events
        self.w = sim.w

    def idx(self, pred):
        return [i for i, e in enumerate(self.ev) if pred(e)]

    def first(self, pred):
        for i, e in enumerate(self.ev):
            if pred(e):
                return i
        return None

    def accepted(self, actor):
        """mailbox acceptance order: list of (event index, label dict)"""
        return [(i, e) for i, e in enumerate(self.ev) if e["ev"] == "accepted" and e["chan"] == "mailbox:" + actor]

    def handled(self, actor):
        return [(i, e) for i, e in enumerate(self.ev) if e["ev"] == "hook_enter" and e["hook"] == "handler" and e["actor"] == actor]

    def hook(self, actor, hook, phase="hook_enter"):
        return [(i, e) for i, e in enumerate(self.ev) if e["ev"] == phase and e.get("hook") == hook and e.get("actor") == actor]

    def ops(self):
        """client ops: dict (client, i) -> {start, done, result, op}"""
        res = {}
        for i, e in enumerate(self.ev):
            if e["ev"] == "op_start":
                res[(e["client"], e["i"])] = {"start": i, "done": None, "result": None, "op": e["op"], "client": e["client"]}
            elif e["ev"] == "op_done":
                r = res[(e["client"], e["i"])]
                r["done"], r["result"], r["now"] = i, e["result"], e.get("now")
        return res

    def actor_task(self, actor):
        return self.w.actors[actor]["task"]

    def actor_result(self, actor):
        t = self.actor_task(actor)
        return t.state, t.result

    def crashed(self, actor):
        return self.actor_task(actor).state == "panicked"

    def kill_requested(self, actor):
        """API-level: index of the first kill() call on `actor` (client op or hook action), or None.
        Deliberately not derived from the control channel's traffic, which is a mechanism."""
        return self.first(lambda e: (e["ev"] == "op_start" and e["op"][0] == "kill" and e["op"][1] == actor)
                          or (e["ev"] == "kill_returned" and e.get("target") == actor))

    def kill_returned(self, actor):
        """API-level: index at which the first kill() on `actor` had returned"""
        return self.first(lambda e: (e["ev"] == "op_done" and e["op"][0] == "kill" and e["op"][1] == actor)
                          or (e["ev"] == "kill_returned" and e.get("target") == actor))

    def stop_returned_ok(self, actor):
        return self.first(lambda e: e["ev"] == "op_done" and e["op"][0] == "stop" and e["op"][1] == actor and str(e["result"]).startswith("Ok"))

    def stop_requested(self, actor):
        """API-level: index of the first stop() call on `actor`, or None"""
        return self.first(lambda e: (e["ev"] == "op_start" and e["op"][0] == "stop" and e["op"][1] == actor)
                          or (e["ev"] == "stop_returned" and e.get("target") == actor))

    def term_consumed(self, actor):
        return self.first(lambda e: e["ev"] == "taken" and e["chan"] == "term:" + actor)

    def mid(self, e):
        v = e.get("id")
        if isinstance(v, IntV):
            return v.v
        return v


def rcode(result):
    """'Ok(..)' / 'Err(Send{..})' -> short code"""
    if result is None:
        return None
    s = str(result)
    if s.startswith("Ok"):
        return "ok"
    for k in ("Send", "Timeout", "Receive", "Downcast", "Join", "Runtime", "MailboxCapacity"):
        pass
    for k in ("Send", "Timeout", "Receive", "Downcast", "Join", "Runtime", "MailboxCapacity"):
        if s.startswith("Err(%s" % k):
            return k.lower()
    return s


def okval(result):
    s = str(result)
    if s.startswith("Ok(") and s.endswith(")"):
        try:
            return int(s[3:-1])
        except ValueError:
            return s[3:-1]
    return None


# =====================================================================================
# monitors
# =====================================================================================
def mon_c01(tr, actor="A"):
    """accepted exactly once / rejected never"""
    ex = tr.ex
    acc = tr.accepted(actor)
    hd = tr.handled(actor)
    acc_ids = [tr.mid(e) for _, e in acc if e["what"] == "msg"]
    hd_ids = [e["msg"] for _, e in hd]
    for m in set(hd_ids):
        ex.check("C01", hd_ids.count(m) <= 1, "message %s handled %d times" % (m, hd_ids.count(m)))
        ex.check("C01", m in acc_ids, "message %s handled but never accepted by the mailbox" % m)
    for m in set(acc_ids):
        ex.check("C01", acc_ids.count(m) <= 1, "message %s entered the mailbox %d times" % (m, acc_ids.count(m)))
    ops = tr.ops()
    for key, o in ops.items():
        kind = o["op"][0]
        if kind not in ("tell", "ask", "tell_t", "ask_t", "btell", "bask", "btell_t", "bask_t") or o["done"] is None:
            continue
        if str(o["result"]).startswith("skipped"):
            continue
        if o["op"][1] != actor:
            continue
        m = o["op"][2]
        rc = rcode(o["result"])
        rejected = rc == "send" or (rc == "timeout" and kind in ("tell_t", "btell_t"))
        if rejected:
            ex.check("C01", m not in hd_ids, "%s(%s) returned %s but the message was handled" % (kind, m, o["result"]))
            if rc == "send" or kind in ("tell_t", "btell_t"):
                ex.check("C01", m not in acc_ids, "%s(%s) returned %s but the message is in the mailbox" % (kind, m, o["result"]))
        if rc == "ok" and kind in ("tell", "tell_t", "btell", "btell_t"):
            ex.check("C01", m in acc_ids, "%s(%s) returned Ok but nothing entered the mailbox" % (kind, m))
    # liveness half: accepted before the stop marker / before the last reference died, actor
    # started, not killed, not crashed  =>  handled exactly once, before on_stop
    st, res = tr.actor_result(actor)
    started = bool(tr.hook(actor, "on_start", "hook_exit")) and "Ok" in str(tr.hook(actor, "on_start", "hook_exit")[0][1]["out"])
    killed = tr.kill_requested(actor) is not None
    failed_run = any(e["ev"] == "hook_exit" and e["hook"] == "on_run" and "Err" in str(e["out"]) for e in tr.ev)
    if started and not killed and not tr.crashed(actor) and not failed_run and st == "finished":
        # "accepted before a graceful stop() was requested": the call, not the marker's arrival
        stop_i = tr.stop_requested(actor)
        onstop = tr.hook(actor, "on_stop")
        ex.check("C01", len(onstop) == 1, "actor ended without kill/crash but on_stop ran %d times" % len(onstop))
        onstop_i = onstop[0][0] if onstop else len(tr.ev)
        for i, e in acc:
            if e["what"] != "msg":
                continue
            if stop_i is not None and i > stop_i:
                continue
            m = tr.mid(e)
            hi = [j for j, h in hd if h["msg"] == m]
            ex.check("C01", len(hi) == 1 and hi[0] < onstop_i,
                     "message %s was accepted before stop/last-drop but was %s" % (m, "never handled" if not hi else "handled after on_stop"))


def mon_c02(tr, actor="A"):
    ex = tr.ex
    acc = [tr.mid(e) for _, e in tr.accepted(actor) if e["what"] == "msg"]
    hd = [e["msg"] for _, e in tr.handled(actor)]
    # handling order is a prefix-respecting subsequence of acceptance order
    pos = {m: k for k, m in enumerate(acc)}
    last = -1
    for m in hd:
        if m in pos:
            ex.check("C02", pos[m] > last, "message %s handled out of mailbox acceptance order (accepted %s, handled %s)" % (m, acc, hd))
            last = pos[m]
    # no gaps: a handled message implies every earlier accepted message was handled before it
    for k, m in enumerate(hd):
        if m in pos:
            for earlier in acc[:pos[m]]:
                ex.check("C02", earlier in hd[:k], "message %s handled although earlier accepted %s was skipped" % (m, earlier))
    # real-time order of completed sends: a done before b starts => a handled before b
    ops = [o for o in tr.ops().values() if o["op"][0] in ("tell", "ask", "tell_t", "ask_t", "btell", "bask") and o["op"][1] == actor]
    for a in ops:
        for b in ops:
            if a is b or a["done"] is None:
                continue
            ma, mb = a["op"][2], b["op"][2]
            # for a tell, `done` is the return of the send; for an ask it is even later
            if a["done"] < b["start"] and ma in hd and mb in hd:
                ex.check("C02", hd.index(ma) < hd.index(mb), "send of %s completed before send of %s began, but %s was handled first" % (ma, mb, mb))
            if a["done"] < b["start"] and rcode(a["result"]) == "ok" and mb in hd and a["op"][0] in ("tell", "tell_t", "btell"):
                ex.check("C02", ma in hd and hd.index(ma) < hd.index(mb), "%s was accepted before %s was sent but %s overtook it" % (ma, mb, mb))
    # stop() takes its place in the same order
    stops = [o for o in tr.ops().values() if o["op"][0] == "stop" and o["op"][1] == actor]
    st, _ = tr.actor_result(actor)
    killed = tr.kill_requested(actor) is not None
    onstop = tr.hook(actor, "on_stop")
    if stops and not killed and not tr.crashed(actor):
        s0 = min(stops, key=lambda o: o["start"])
        for i, e in tr.accepted(actor):
            if e["what"] == "msg" and i < s0["start"] and onstop:
                m = tr.mid(e)
                hi = [j for j, h in tr.handled(actor) if h["msg"] == m]
                ex.check("C02", bool(hi) and hi[0] < onstop[0][0], "message %s accepted before stop() was called is not handled before on_stop" % m)
        done = [o for o in stops if o["done"] is not None]
        if done:
            d0 = min(o["done"] for o in done)
            for i, e in tr.accepted(actor):
                if e["what"] == "msg" and i > d0:
                    ex.check("C02", tr.mid(e) not in hd, "message %s accepted after stop() returned was handled" % tr.mid(e))


def mon_c03(tr, actor="A"):
    ex = tr.ex
    hd = [e["msg"] for _, e in tr.handled(actor)]
    exits = {e["msg"]: e["out"] for e in tr.ev if e["ev"] == "hook_exit" and e["hook"] == "handler" and e["actor"] == actor}
    for key, o in tr.ops().items():
        kind = o["op"][0]
        if kind not in ("ask", "ask_t", "bask", "bask_t") or o["op"][1] != actor:
            continue
        m = o["op"][2]
        # every ask completes (global quiescence has been reached)
        ex.check("C03", o["done"] is not None, "ask(%s) by %s is still pending at quiescence (actor task: %s)" % (m, o["client"], tr.actor_task(actor).state))
        if rcode(o["result"]) == "ok":
            ex.check("C03", okval(o["result"]) == reply_of(m), "ask(%s) returned %s, which is not the reply to this request" % (m, o["result"]))
            ex.check("C03", m in exits, "ask(%s) returned Ok without its handler having run to completion" % m)
    # after the actor task has ended every later ask fails
    t = tr.actor_task(actor)
    end_i = tr.first(lambda e: e["ev"] in ("task_finished", "task_panicked") and e["task"] == t.name)
    if end_i is not None:
        for key, o in tr.ops().items():
            if o["op"][0] in ("ask", "ask_t", "tell", "tell_t") and o["op"][1] == actor and o["start"] > end_i and o["done"] is not None:
                ex.check("C03", rcode(o["result"]) != "ok", "%s started after the actor ended returned %s" % (o["op"], o["result"]))
    # no client task hangs
    for tsk in tr.w.tasks:
        if tsk.name.startswith("client:"):
            ex.check("C03", tsk.state != "running", "client task %s never finished (pending operation at quiescence)" % tsk.name)


def hook_sequence(tr, actor):
    return [(i, e) for i, e in enumerate(tr.ev) if e["ev"] in ("hook_enter", "hook_exit", "hook_poll") and e.get("actor") == actor]


def mon_c04(tr, actor="A"):
    ex = tr.ex
    seq = hook_sequence(tr, actor)
    enters = [(i, e) for i, e in seq if e["ev"] == "hook_enter"]
    starts = [x for x in enters if x[1]["hook"] == "on_start"]
    stops = [x for x in enters if x[1]["hook"] == "on_stop"]
    ex.check("C04", len(starts) <= 1, "on_start ran %d times" % len(starts))
    if enters:
        ex.check("C04", enters[0][1]["hook"] == "on_start", "first hook is %s, not on_start" % enters[0][1]["hook"])
    start_exit = [(i, e) for i, e in seq if e["ev"] == "hook_exit" and e["hook"] == "on_start"]
    start_ok = bool(start_exit) and str(start_exit[0][1]["out"]).startswith("Ok")
    for i, e in seq:
        if e["hook"] in ("handler", "on_run", "on_stop") and e["ev"] in ("hook_enter", "hook_poll"):
            ex.check("C04", start_ok and i > start_exit[0][0], "%s ran before on_start completed successfully" % e["hook"])
    ex.check("C04", len(stops) <= 1, "on_stop ran %d times" % len(stops))
    if stops:
        later = [e["hook"] for i, e in enters if i > stops[0][0]]
        ex.check("C04", not later, "hooks %s ran after on_stop" % later)
        later_polls = [e["hook"] for i, e in seq if e["ev"] == "hook_poll" and i > stops[0][0] and e["hook"] != "on_stop"]
        ex.check("C04", not later_polls, "hook bodies %s were polled after on_stop started" % later_polls)
    t = tr.actor_task(actor)
    # when must on_stop have run?
    # kill() had returned (API level) - not "something was taken from the control channel"
    consumed = tr.kill_returned(actor)
    run_err = any(e["ev"] == "hook_exit" and e["hook"] == "on_run" and "Err" in str(e["out"]) for _, e in seq)
    if t.state == "finished":
        if not start_ok:
            ex.check("C04", not stops, "on_stop ran after a failed on_start")
        else:
            ex.check("C04", len(stops) == 1, "actor ended (result %s) without running on_stop exactly once" % tr.w.describe(t.result))
            k = stops[0][1]["killed"]
            ex.check("C04", k == (consumed is not None and consumed < stops[0][0] and not run_err),
                     "on_stop(killed=%s) but kill() had %sreturned before on_stop began" % (k, "" if (consumed is not None and consumed < stops[0][0]) else "not "))
    # "... and not after a panic": no on_stop is entered once a hook of this actor has panicked
    hp = tr.first(lambda e: e["ev"] == "hook_panic" and e.get("actor") == actor)
    if hp is not None:
        late = [i for i, e in stops if i > hp]
        ex.check("C04", not late, "on_stop ran after %s had panicked" % tr.ev[hp]["hook"])
    if t.state == "panicked":
        p = tr.first(lambda e: e["ev"] == "task_panicked" and e["task"] == t.name)
        # no on_stop *after* the panic (the panic may be in on_stop itself)
        pan_hook = None
        for i, e in reversed(seq):
            if i < p and e["ev"] == "hook_enter":
                pan_hook = e["hook"]
                break
        if pan_hook != "on_stop":
            ex.check("C04", not stops, "on_stop ran although the actor panicked in %s" % pan_hook)


def mon_c05(tr, actor="A"):
    ex = tr.ex
    t = tr.actor_task(actor)
    seq = hook_sequence(tr, actor)
    exits = [e for _, e in seq if e["ev"] == "hook_exit"]
    script = tr.w.actors[actor]["script"]
    if t.state == "panicked":
        return
    if t.state != "finished":
        return
    r = t.result
    ex.check("C05", isinstance(r, Agg) and r.name == "ActorResult", "JoinHandle output is not an ActorResult: %r" % (r,))
    start_exit = [e for e in exits if e["hook"] == "on_start"]
    start_ok = bool(start_exit) and str(start_exit[0]["out"]).startswith("Ok")
    run_err = [e for e in exits if e["hook"] == "on_run" and "Err" in str(e["out"])]
    stop_exit = [e for e in exits if e["hook"] == "on_stop"]
    stop_err = bool(stop_exit) and "Err" in str(stop_exit[0]["out"])
    # "killed exactly when a kill signal ended the actor": the signal was consumed by the loop's
    # termination branch, i.e. on_stop was invoked with killed=true (C04 ties that argument to
    # the consumption of a Terminate *before* on_stop); a signal that arrives later, while the
    # actor is already stopping, did not end it.
    stop_enter = tr.hook(actor, "on_stop", "hook_enter")
    consumed = bool(stop_enter) and stop_enter[0][1]["killed"] is True
    ran = len(exits)      # hooks/handlers that ran to completion, each bumps the actor's counter
    if not start_ok:
        exp = ("Failed", "OnStart", False, None, script.err_tag + 1)
    elif run_err:
        exp = ("Failed", "OnRunThenOnStop" if stop_err else "OnRun", None, ran, script.err_tag + 2)
    elif stop_err:
        exp = ("Failed", "OnStop", consumed, ran, script.err_tag + 3)
    else:
        exp = ("Completed", None, consumed, ran, None)
    ex.check("C05", r.variant == exp[0], "result is %s, trace says %s" % (r.variant, exp[0]))
    if r.variant == "Completed":
        act, killed = r.fields
        ex.check("C05", killed == exp[2], "Completed{killed=%s} but a kill signal was %sconsumed" % (killed, "" if consumed else "not "))
        ex.check("C05", tr.w.describe(act.fields[0]) == exp[3], "actor state reports %s completed hooks, the trace has %s" % (tr.w.describe(act.fields[0]), exp[3]))
    else:
        act, err, phase, killed = r.fields
        ex.check("C05", phase.variant == exp[1], "failure phase %s, trace says %s" % (phase.variant, exp[1]))
        ex.check("C05", tr.w.describe(err) == exp[4], "error value %s is not the failing hook's error (%s)" % (tr.w.describe(err), exp[4]))
        if exp[2] is not None:
            ex.check("C05", killed == exp[2], "Failed{killed=%s} but a kill signal was %sconsumed" % (killed, "" if consumed else "not "))
        if exp[3] is None:
            ex.check("C05", act.variant == "None", "start-up failure carries an actor instance")
        else:
            ex.check("C05", act.variant == "Some", "actor instance missing from a %s failure" % exp[1])
            if act.variant == "Some":
                ex.check("C05", tr.w.describe(act.fields[0].fields[0]) == exp[3], "actor state reports %s completed hooks, the trace has %s" % (tr.w.describe(act.fields[0].fields[0]), exp[3]))


def mon_c05_panic(tr, actor="A"):
    """a panic in any hook surfaces as a panic JoinError, never as a normal result"""
    ex = tr.ex
    t = tr.actor_task(actor)
    pan = any(e["ev"] == "panic" or (e["ev"] == "task_panicked") for e in tr.ev if e.get("task") == t.name)
    scripted = tr.first(lambda e: e["ev"] == "task_panicked" and e["task"] == t.name)
    hook_panicked = any(e["ev"] == "hook_poll" for e in tr.ev) and t.state == "panicked"
    # scripted panics are raised inside HookFuture.finish: the hook has an enter but no exit
    for hook in ("on_start", "on_run", "on_stop", "handler"):
        ent = len(tr.hook(actor, hook, "hook_enter"))
        exi = len(tr.hook(actor, hook, "hook_exit"))
        dropped_mid = ent - exi
        if dropped_mid > 0 and t.state == "finished":
            # a hook that was entered and never exited: only legitimate if it was cancelled by a kill
            pass
    if getattr(tr.w.actors[actor]["script"], "_expect_panic", False):
        ex.check("C05", t.state == "panicked", "a hook panicked but the JoinHandle resolved normally: %s" % tr.w.describe(t.result))
    # trace-based: any user hook of this actor that panicked (whichever schedule led there)
    hp = [e for e in tr.ev if e["ev"] == "hook_panic" and e.get("actor") == actor]
    if hp:
        ex.check("C05", t.state == "panicked", "%s panicked but the JoinHandle resolved with a normal result: %s" % (
            hp[0]["hook"], tr.w.describe(t.result) if t.state == "finished" else t.state))


def mon_c06(tr, actor="A"):
    ex = tr.ex
    kills = [(i, e) for i, e in enumerate(tr.ev) if e["ev"] == "op_done" and e["op"][0] == "kill" and e["op"][1] == actor]
    for i, e in kills:
        ex.check("C06", str(e["result"]).startswith("Ok"), "kill() returned %s" % e["result"])
    # "once it has returned": the moment kill() returned (API level; which channel carries what is
    # the implementation's business)
    eff = tr.kill_returned(actor)
    if eff is None:
        return
    t = tr.actor_task(actor)
    onstop = tr.hook(actor, "on_stop")
    # "an actor that had not already begun stopping": on_stop entered, the task over, a start-up or
    # on_run failure, or the graceful-stop marker already consumed before kill() returned
    already_stopping = (bool(onstop) and onstop[0][0] < eff) or any(
        (e["ev"] in ("task_finished", "task_panicked") and e.get("task") == t.name)
        or (e["ev"] == "hook_exit" and e.get("actor") == actor and e["hook"] in ("on_start", "on_run") and "Err" in str(e["out"]))
        or (e["ev"] == "taken" and e["chan"] == "mailbox:" + actor and e.get("what") == "stop")
        for e in tr.ev[:eff])
    start_failed = any(e["ev"] == "hook_exit" and e.get("actor") == actor and e["hook"] == "on_start" and "Err" in str(e["out"]) for e in tr.ev)
    run_failed = any(e["ev"] == "hook_exit" and e.get("actor") == actor and e["hook"] == "on_run" and "Err" in str(e["out"]) for e in tr.ev)
    if already_stopping or t.state == "panicked" or start_failed or run_failed:
        return
    # "... then runs on_stop(killed=true) as soon as the hook in progress (if any) finishes": no new
    # idle-hook invocation is started once kill() has returned
    new_runs = [i for i, e in enumerate(tr.ev) if i > eff and e["ev"] == "hook_enter" and e.get("actor") == actor and e["hook"] == "on_run"]
    ex.check("C06", not new_runs, "on_run was started after kill() had returned (instead of going to on_stop when the hook in progress finished)")
    started_after = [(i, e) for i, e in tr.handled(actor) if i > eff]
    ex.check("C06", len(started_after) <= 1, "%d handlers started after kill() had returned (messages %s)" % (len(started_after), [e["msg"] for _, e in started_after]))
    if t.state == "finished":
        ex.check("C06", len(onstop) == 1 and onstop[0][1]["killed"] is True, "after an effective kill on_stop ran %d times / killed=%s" % (len(onstop), onstop[0][1]["killed"] if onstop else None))
        r = t.result
        killed = r.fields[1] if r.variant == "Completed" else r.fields[3]
        ex.check("C06", killed is True, "ActorResult.killed=%s after an effective kill" % killed)
    ex.check("C06", t.state != "running", "actor still running at quiescence after kill()")
    # leftovers are never handled and their asks fail
    acc = [(i, e) for i, e in tr.accepted(actor) if e["what"] == "msg"]
    hd = [e["msg"] for _, e in tr.handled(actor)]
    for o in tr.ops().values():
        if o["op"][0] in ("ask", "ask_t") and o["op"][1] == actor and o["op"][2] not in hd:
            ex.check("C06", o["done"] is not None and rcode(o["result"]) != "ok", "ask(%s) left in the mailbox of a killed actor did not fail: %s" % (o["op"][2], o["result"]))


def mon_c07(tr, actor="A", expect_alive=None):
    ex = tr.ex
    t = tr.actor_task(actor)
    a = tr.w.actors[actor]
    strong = a["mailbox"].tx_count
    stop_acc = tr.first(lambda e: e["ev"] == "accepted" and e["chan"] == "mailbox:" + actor and e["what"] == "stop")
    kill_acc = tr.first(lambda e: e["ev"] == "accepted" and e["chan"] == "term:" + actor)
    run_err = any(e["ev"] == "hook_exit" and e["hook"] == "on_run" and e["actor"] == actor and "Err" in str(e["out"]) for e in tr.ev)
    start_bad = any(e["ev"] == "hook_exit" and e["hook"] == "on_start" and e["actor"] == actor and "Err" in str(e["out"]) for e in tr.ev)
    # causes after which the actor MUST end (a stop()/kill() that returned Ok, a failure) ...
    cause_must = tr.stop_returned_ok(actor) is not None or tr.kill_returned(actor) is not None or run_err or start_bad or t.state == "panicked"
    # ... and anything that MAY legitimately have ended it (a stop()/kill() merely started)
    cause = cause_must or stop_acc is not None or kill_acc is not None or tr.stop_requested(actor) is not None or tr.kill_requested(actor) is not None
    if t.state == "running":
        ex.check("C07", strong > 0, "no strong reference is left (mailbox senders=0) but the actor has not ended")
        ex.check("C07", not cause_must, "a termination cause occurred but the actor is still running at quiescence")
    else:
        if t.state == "finished" and not cause:
            ex.check("C07", strong == 0 or a["term"].tx_count == 0, "actor ended on its own: %d strong references still exist and no stop/kill/error occurred" % strong)
            onstop = tr.hook(actor, "on_stop")
            ex.check("C07", len(onstop) == 1 and onstop[0][1]["killed"] is False, "unreferenced actor did not run on_stop(killed=false)")
    if expect_alive is not None:
        ex.check("C07", (t.state == "running") == expect_alive, "actor task state %s, expected %s" % (t.state, "running" if expect_alive else "ended"))


def mon_c07_work(tr, actor="A"):
    """C07: "... the actor - unless a kill or crash intervenes - finishes the work accepted before
    that point, runs on_stop(killed=false) and its JoinHandle resolves": the liveness half of the
    C01 monitor, reported under C07"""
    try:
        mon_c01(tr, actor)
    except Violation as e:
        if "accepted before stop/last-drop" in e.msg or "on_stop ran" in e.msg:
            raise Violation("C07", e.msg, e.detail)
    t = tr.actor_task(actor)
    if t.state == "finished" and tr.kill_requested(actor) is None and isinstance(t.result, Agg) and t.result.variant == "Completed":
        tr.ex.check("C07", t.result.fields[1] is False, "no kill() was called but the actor reports killed=%s" % (t.result.fields[1],))


def mon_c08(tr, actor="A"):
    ex = tr.ex
    seq = hook_sequence(tr, actor)
    disabled_at = None
    for i, e in seq:
        if e["hook"] != "on_run":
            continue
        if e["ev"] == "hook_poll":
            ex.check("C08", e["mailbox"] == 0, "on_run body polled while %d message(s) wait in the mailbox" % e["mailbox"])
            ex.check("C08", not e["kill_pending"], "on_run body polled while a kill signal is pending")
            ex.check("C08", disabled_at is None, "on_run body executed after it had returned Ok(false)")
        if e["ev"] == "hook_exit" and str(e["out"]) == "Ok(False)":
            disabled_at = i
        if e["ev"] == "hook_exit" and "Err" in str(e["out"]):
            t = tr.actor_task(actor)
            stops = tr.hook(actor, "on_stop")
            ex.check("C08", t.state != "running", "on_run returned Err but the actor keeps running")
            if t.state == "finished":
                ex.check("C08", len(stops) == 1 and stops[0][1]["killed"] is False, "after an on_run error on_stop(killed=false) did not run exactly once")
                ex.check("C08", t.result.variant == "Failed", "on_run error but the actor result is %s" % t.result.variant)
    # Ok(true) => run again when next idle: at quiescence an actor whose last on_run said Ok(true),
    # is alive and idle must have on_run pending (entered, not exited)
    t = tr.actor_task(actor)
    outs = [e for _, e in seq if e["hook"] == "on_run" and e["ev"] == "hook_exit"]
    ents = [e for _, e in seq if e["hook"] == "on_run" and e["ev"] == "hook_enter"]
    if t.state == "running" and outs and str(outs[-1]["out"]) == "Ok(True)":
        ex.check("C08", len(ents) > len(outs), "on_run returned Ok(true) but was not started again although the actor is idle")


def mon_c09(tr, actor="A", cap=None):
    ex = tr.ex
    ch = tr.w.actors[actor]["mailbox"]
    if cap is not None:
        ex.check("C09", ch.cap == cap, "mailbox channel was created with capacity %d, requested %d" % (ch.cap, cap))
        ex.check("C09", ch.max_len <= cap, "mailbox held %d entries, capacity %d" % (ch.max_len, cap))
    # accepted-but-not-yet-taken operations (a tell/stop that returned Ok, an ask whose message is in
    # the mailbox) never exceed the capacity, at any instant of the run
    if cap is not None:
        outstanding = 0
        counted = set()
        for i, e in enumerate(tr.ev):
            if e["ev"] == "accepted" and e["chan"] == "mailbox:" + actor:
                key = ("m", tr.mid(e)) if e["what"] == "msg" else ("stop", i)
                if key not in counted:
                    counted.add(key)
                    outstanding += 1
            elif e["ev"] == "op_done" and e["op"][0] in ("tell", "tell_t", "stop") and e["op"][1] == actor and str(e["result"]).startswith("Ok"):
                key = ("m", e["op"][2]) if e["op"][0] != "stop" else ("stopop", e["client"], e["i"])
                if e["op"][0] == "stop":
                    # a stop() that returned Ok has been accepted: if its marker is not in the mailbox yet
                    # it is held somewhere else and still counts
                    marker_in = any(x["ev"] == "accepted" and x["chan"] == "mailbox:" + actor and x["what"] == "stop" for x in tr.ev[:i])
                    closed = tr.w.actors[actor]["mailbox"].closed
                    if not marker_in and not any(x["ev"] in ("task_finished", "task_panicked") and x["task"] == tr.actor_task(actor).name for x in tr.ev[:i]):
                        outstanding += 1
                        counted.add(key)
                elif key not in counted:
                    counted.add(key)
                    outstanding += 1
            elif e["ev"] == "taken" and e["chan"] == "mailbox:" + actor and e.get("what") != "msg":
                outstanding -= 1
            elif e["ev"] == "hook_enter" and e.get("actor") == actor and e["hook"] == "handler" and ("m", e.get("msg")) in counted:
                # a message stops occupying the mailbox when the actor takes it up, i.e. when its
                # handler begins (moving it into some other queue first does not free a slot)
                counted.discard(("m", e.get("msg")))
                outstanding -= 1
            ex.check("C09", outstanding <= cap, "%d operations accepted but not yet taken, capacity %d" % (outstanding, cap))
    # a send never waits while a slot is free: at quiescence nobody is queued while permits exist
    ex.check("C09", not (ch.free > 0 and (ch.waitq or ch.granted) and not ch.closed), "a sender waits although %d slot(s) are free" % ch.free)
    for o in tr.ops().values():
        if o["op"][0] in ("tell", "ask", "stop") and o["op"][1] == actor and o["done"] is None:
            ex.check("C09", ch.closed or ch.free == 0 or o["op"][0] == "ask", "%s is pending at quiescence although the mailbox has a free slot" % (o["op"],))
            # room in the buffer that is neither free nor used: a slot handed to a parked sender
            # that does not use it (e.g. one that waits for several slots at once)
            accepted = any(e["ev"] == "accepted" and e["chan"] == "mailbox:" + actor and (tr.mid(e) == o["op"][2] if len(o["op"]) > 2 else e.get("what") == "stop") for e in tr.ev[o["start"]:])
            if not accepted and cap is not None:
                ex.check("C09", ch.closed or len(ch.buf) >= cap, "%s is still waiting at quiescence although the mailbox holds only %d of %d messages" % (o["op"], len(ch.buf), cap))
    # full mailbox => wait, not fail/drop: no Err(Send) while the actor is alive and the mailbox open
    t = tr.actor_task(actor)
    for o in tr.ops().values():
        if o["op"][0] in ("tell", "ask") and o["op"][1] == actor and rcode(o["result"]) == "send":
            closed_before = tr.first(lambda e: e["ev"] in ("task_finished", "task_panicked") and e["task"] == t.name)
            ex.check("C09", closed_before is not None and closed_before < o["done"] or ch.closed, "%s failed with Err(Send) on a live actor (back-pressure must wait)" % (o["op"],))


def mon_c13(tr):
    ex = tr.ex
    dls = [e for e in tr.ev if e["ev"] == "dead_letter"]
    fails = []
    label = {"tell": "tell", "tell_t": "tell", "ask": "ask", "ask_t": "ask", "btell": "blocking_tell", "btell_t": "blocking_tell", "bask": "blocking_ask", "bask_t": "blocking_ask"}
    for o in tr.ops().values():
        k = o["op"][0]
        if k not in label or o["done"] is None:
            continue
        rc = rcode(o["result"])
        if rc in ("send", "timeout", "receive"):
            fails.append((k, rc, o))
    # The blocking variants *with* a timeout run the async tell/ask on a helper runtime: a failure
    # of that inner call is recorded by the inner call, i.e. labelled "tell"/"ask"; only the
    # timeout itself is labelled "blocking_*".  Both labels name the operation family; the check
    # normalises them (see DESIGN.md, observation O1).
    def fam(lbl, k=None):
        return lbl.replace("blocking_", "") if True else lbl
    exp = sorted((fam(label[k]), {"send": "ActorStopped", "timeout": "Timeout", "receive": "ReplyDropped"}[rc], tr.w.describe(tr.w.actors[o["op"][1]]["id"])) for k, rc, o in fails)
    got = sorted((fam(e["op"]), e["reason"], e["id"]) for e in dls)
    # exact labels where the API is unambiguous: async ops and blocking ops without timeout
    exact_exp = sorted((label[k], rc) for k, rc, o in fails if k in ("tell", "ask", "tell_t", "ask_t", "btell", "bask"))
    exact_got_all = [(e["op"]) for e in dls]
    for lbl, rc in exact_exp:
        ex.check("C13", lbl in exact_got_all, "no dead letter labelled %r for a failed %s" % (lbl, lbl))
    # operations cancelled mid-flight (still pending) must not have recorded anything either
    ex.check("C13", got == exp, "dead letters recorded %s, failed deliveries were %s" % (got, exp))


def mon_c19_runtime(tr, actor="A"):
    """after a tell - and never after an ask - on_tell_result is invoked exactly once with the
    handler's return value, directly after the handler"""
    ex = tr.ex
    kinds = {}
    for o in tr.ops().values():
        if o["op"][1] == actor and o["op"][0] in ("tell", "tell_t", "tell_c", "btell", "btell_t", "ask", "ask_t", "ask_c", "bask", "bask_t"):
            kinds[o["op"][2]] = "tell" if "tell" in o["op"][0] else "ask"
    done = [(i, e) for i, e in tr.hook(actor, "handler", "hook_exit")]
    exp = sorted(reply_of(e["msg"]) for _, e in done if kinds.get(e["msg"]) == "tell")
    got = sorted(e["result"] for e in tr.ev if e["ev"] == "on_tell_result")
    ex.check("C19", got == exp, "on_tell_result calls %s; completed tell handlers returned %s (asks: %s)" % (
        got, exp, [e["msg"] for _, e in done if kinds.get(e["msg"]) == "ask"]))
    for i, e in enumerate(tr.ev):
        if e["ev"] == "on_tell_result":
            prev = [x for x in tr.ev[:i] if x["ev"] == "hook_exit" and x.get("hook") == "handler" and x.get("actor") == actor]
            ex.check("C19", bool(prev) and prev[-1]["out"] == e["result"] and kinds.get(prev[-1]["msg"]) == "tell",
                     "on_tell_result(%s) does not follow the tell handler that produced it" % e["result"])


def mon_c20(tr, actor="A"):
    ex = tr.ex
    w, it = tr.w, tr.sim.it
    a = w.actors[actor]
    hd = len(tr.handled(actor))
    # read through a surviving strong handle (a client kept its reference) or the main one
    cell = a["ref_cell"]
    if cell.value is MOVED:
        for c in tr.sim.clients.values():
            if actor in c.refs and c.refs[actor].value is not MOVED:
                cell = c.refs[actor]
                break
    if cell.value is MOVED:
        return
    cnt = w.call_method(it, "ActorRef", "message_count", [Ref(cell, (), False)])
    ex.check("C20", w.describe(cnt) == hd, "message_count=%s but %d handlers were entered" % (w.describe(cnt), hd))
    avg = w.call_method(it, "ActorRef", "avg_processing_time", [Ref(cell, (), False)])
    mx = w.call_method(it, "ActorRef", "max_processing_time", [Ref(cell, (), False)])
    snap = w.call_method(it, "ActorRef", "metrics", [Ref(cell, (), False)])
    ex.check("C20", w.zge(mx.fields[0], avg.fields[0]), "avg_processing_time > max_processing_time")
    ex.check("C20", w.describe(snap.fields[0]) == hd, "snapshot.message_count=%s, handlers entered=%d" % (w.describe(snap.fields[0]), hd))
    longest = getattr(tr.sim, "longest_handler_ns", None)
    if longest is not None:
        ex.check("C20", w.zge(mx.fields[0], longest), "max_processing_time is smaller than a handler demonstrably took")
