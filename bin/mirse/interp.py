"""Symbolic interpreter for rustc MIR (pre-coroutine-lowering bodies).

One `Interp` executes ONE path.  Control flow is concrete wherever the data is; a branch on a
symbolic value asks the `Exec` (explore.py) which feasible alternative this path takes.
Environment calls (tokio, std, the scripted user actor) are python builtins."""
import copy
import re
import sys

import z3

from .mirparse import Body, INT_TYPES, MirUnsupported, strip_generics, split_top, match_close
from .values import *  # noqa: F401,F403

sys.setrecursionlimit(20000)

STD_ENUMS = {
    "Option": ["None", "Some"],
    "Result": ["Ok", "Err"],
    "Poll": ["Ready", "Pending"],
    "ControlFlow": ["Continue", "Break"],
    "Ordering": ["Less", "Equal", "Greater"],
    "TrySendError": ["Full", "Closed"],
    "TryRecvError": ["Empty", "Disconnected"],
    "SendTimeoutError": ["Timeout", "Closed"],
    "Cow": ["Borrowed", "Owned"],
}


class Frame:
    __slots__ = ("body", "locals", "bb", "resume_dest", "name")

    def __init__(self, body):
        self.body = body
        self.locals = {}
        self.bb = 0
        self.resume_dest = None
        self.name = body.name

    def cell(self, i):
        c = self.locals.get(i)
        if c is None:
            c = Cell(UNINIT, "%s._%d" % (self.name.split("::")[-1], i))
            self.locals[i] = c
        return c


class Program:
    """everything that is the same for all paths: parsed bodies, impl index, enum table"""

    def __init__(self, bodies, src_root):
        self.bodies = bodies
        self.src_root = src_root
        self.enums = dict(STD_ENUMS)
        self.impl_index = {}     # (selfty, trait or None, method) -> body name (first one)
        self.impl_all = {}       # same key -> every body name (colliding From impls etc.)
        self.free_index = {}     # last segment -> [body names]
        self.closure_index = {}  # '{closure@span}' / '{coroutine@span}' key -> body name
        self.statics = {}        # name -> body
        self._src_cache = {}
        self._index()

    # -- source helpers ------------------------------------------------------------------
    def src_lines(self, rel):
        if rel not in self._src_cache:
            import os
            p = os.path.join(self.src_root, rel)
            self._src_cache[rel] = open(p).read().split("\n") if os.path.exists(p) else []
        return self._src_cache[rel]

    def _impl_header(self, span):
        """span 'src/x.rs:L:C: L2:C2' -> (selfty, trait)"""
        m = re.match(r"^(.*?):(\d+):(\d+): (\d+):(\d+)$", span)
        if not m:
            return None, None
        rel, l1, c1, l2, c2 = m.group(1), int(m.group(2)), int(m.group(3)), int(m.group(4)), int(m.group(5))
        rel = rel[4:] if rel.startswith("src/") else rel
        lines = self.src_lines(rel)
        if l1 - 1 >= len(lines):
            return None, None
        line = lines[l1 - 1]
        if "#[derive" in line and not line.lstrip().startswith("impl"):
            trait = line[c1 - 1:c2 - 1].strip()
            k = l1
            while k < len(lines):
                mm = re.match(r"^\s*(?:pub(?:\([a-z]+\))?\s+)?(?:struct|enum)\s+(\w+)", lines[k])
                if mm:
                    return mm.group(1), trait
                k += 1
            return None, trait
        text = " ".join(lines[l1 - 1:l2])
        text = text[text.find("impl"):]
        # drop generics after impl
        t = text[4:].lstrip()
        if t.startswith("<"):
            t = t[match_close(t, 0) + 1:].lstrip()
        t = t.split("{")[0]
        t = re.split(r"\bwhere\b", t)[0].strip()
        if " for " in t:
            trait, selfty = t.split(" for ", 1)
        else:
            trait, selfty = None, t

        def head(x):
            x = x.strip()
            x = re.sub(r"^(&|dyn\s+|Box<dyn\s+)", "", x)
            mm = re.match(r"^([\w:]+)", x)
            return mm.group(1).split("::")[-1] if mm else x
        return head(selfty), (head(trait) if trait else None)

    def _index(self):
        # enums of the crate
        import os
        for root, _d, files in os.walk(self.src_root):
            for f in files:
                if f.endswith(".rs"):
                    txt = open(os.path.join(root, f)).read()
                    txt = re.sub(r"//[^\n]*", "", txt)
                    txt = re.sub(r'"(?:[^"\\\n]|\\.)*"', '""', txt)
                    for m in re.finditer(r"\benum\s+(\w+)[^{;]*\{", txt):
                        j = match_close(txt, m.end() - 1)
                        body = txt[m.end():j]
                        body = re.sub(r"//[^\n]*", "", body)
                        body = re.sub(r"#\[[^\]]*\]", "", body)
                        vs = []
                        for part in split_top(body):
                            mm = re.match(r"^\s*(\w+)", part)
                            if mm:
                                vs.append(mm.group(1))
                        if vs and m.group(1) not in self.enums:
                            self.enums[m.group(1)] = vs
        nsel = -1
        for b in self.bodies.values():
            for blk in b.blocks.values():
                for s in blk.stmts:
                    if s.kind == "assign" and s.rv.kind == "adt":
                        mm = re.search(r"\bOut::(?:<.*>::)?_(\d+)$", s.rv.a)
                        if mm:
                            nsel = max(nsel, int(mm.group(1)))
        if nsel >= 0:
            self.enums["Out"] = ["_%d" % k for k in range(nsel + 1)] + ["Disabled"]
        for name, b in self.bodies.items():
            if b.header.startswith("static ") or b.header.startswith("const "):
                self.statics.setdefault(name.split("::")[-1], b)
                self.statics[name] = b
                continue
            m = re.match(r"^(?:(.*?)::)?<impl at (.*?)>::(\w+)((?:::\{closure#\d+\})*)$", name)
            if m and not m.group(4):
                selfty, trait = self._impl_header(m.group(2))
                self.impl_index.setdefault((selfty, trait, m.group(3)), name)
                self.impl_index.setdefault((selfty, "*", m.group(3)), name)
                self.impl_all.setdefault((selfty, trait, m.group(3)), []).append(name)
            elif not m:
                last = name.split("::")[-1]
                if not last.startswith("{"):
                    self.free_index.setdefault(last, []).append(name)
                    # trait default methods:  actor::Actor::on_run
                    parts = name.split("::")
                    if len(parts) >= 2 and parts[-2][:1].isupper():
                        self.impl_index.setdefault(("<default>", parts[-2], last), name)
            # closures / async blocks: key by the type of _1
            if "{closure#" in name and b.arg_types:
                t = b.arg_types[0].strip()
                t = re.sub(r"^&(mut )?", "", t)
                mm = re.match(r"^\{(closure|async block|async closure|coroutine)@(.*?)\}$", t)
                if mm:
                    self.closure_index[mm.group(2)] = name
                else:
                    # `{async fn body of X}`: parent def path + ::{closure#0}
                    self.closure_index["parent:" + name.rsplit("::", 1)[0]] = name

    def enum_index(self, name, variant):
        vs = self.enums.get(name)
        if vs is None:
            raise Unsupported("unknown enum %s (variant %s)" % (name, variant))
        if variant not in vs:
            raise Unsupported("unknown variant %s::%s" % (name, variant))
        return vs.index(variant)


def type_head(t):
    """'actor_ref::ActorRef<T>' -> 'ActorRef' ; '&mut Foo<..>' -> 'Foo'"""
    t = t.strip()
    t = re.sub(r"^(&('\w+\s+)?(mut\s+)?|\*const\s+|\*mut\s+)", "", t)
    t = re.sub(r"^dyn\s+", "dyn ", t)
    m = re.match(r"^(dyn )?([\w:]+)", t)
    if not m:
        return t
    return (m.group(1) or "") + m.group(2).split("::")[-1]


class Interp:
    def __init__(self, prog, ex, env):
        self.prog = prog
        self.ex = ex
        self.env = env              # builtins / model world (builtins.World)
        self.steps = 0
        self.static_cells = {}
        self.trace = []
        self.depth = 0

    # ---------------------------------------------------------------- places
    def loc(self, frame, place):
        cell = frame.cell(place.local)
        path = []
        for p in place.proj:
            k = p[0]
            if k == "deref":
                v = self.load(cell, path)
                if isinstance(v, Ref):
                    cell, path = v.cell, list(v.path)
                elif isinstance(v, BoxV):
                    cell, path = v.cell, []
                elif isinstance(v, Agg) and v.name == "Pin":
                    v = v.fields[0]
                    cell, path = v.cell, list(v.path)
                else:
                    raise Unsupported("deref of %r in %s" % (v, frame.name))
            elif k == "field":
                path.append(p[1])
            elif k == "downcast":
                path.append(("as", p[1]))
            elif k == "index":
                iv = frame.cell(p[1]).value
                if not isinstance(iv, IntV) or iv.is_sym():
                    raise Unsupported("symbolic array index")
                path.append(iv.v)
            elif k == "cindex":
                path.append(("cidx", p[1], p[2]))
            else:
                raise Unsupported("projection " + k)
        return cell, path

    def load(self, cell, path):
        v = cell.value
        for k in path:
            if isinstance(k, tuple):
                if k[0] == "as":
                    if not isinstance(v, Agg) or v.variant != k[1]:
                        raise Unsupported("downcast to %s of %r" % (k[1], v))
                    continue
                if k[0] == "cidx":
                    v = v.fields[-k[1] if k[2] else k[1]]
                    continue
            if isinstance(v, BoxV):
                if k == 0:
                    continue       # Box.0 (Unique) / Unique.0 (NonNull): stay on the box
                raise Unsupported("field %r of Box" % (k,))
            if isinstance(v, Agg):
                if k >= len(v.fields):
                    raise Unsupported("field %d of %r" % (k, v))
                v = v.fields[k]
            elif isinstance(v, ModelObj) and hasattr(v, "fields"):
                v = v.fields[k]
            else:
                raise Unsupported("field %r of %r" % (k, v))
        return v

    def store(self, cell, path, val):
        keys = [k for k in path if not (isinstance(k, tuple) and k[0] == "as")]
        if not keys:
            cell.value = val
            return
        v = cell.value
        for k in keys[:-1]:
            if isinstance(k, tuple) and k[0] == "cidx":
                v = v.fields[-k[1] if k[2] else k[1]]
            elif isinstance(v, BoxV) and k == 0:
                continue
            else:
                v = v.fields[k]
        k = keys[-1]
        if isinstance(k, tuple) and k[0] == "cidx":
            k = -k[1] if k[2] else k[1]
        if not isinstance(v, Agg):
            raise Unsupported("store into field of %r" % (v,))
        while len(v.fields) <= k:
            v.fields.append(UNINIT)
        v.fields[k] = val

    def read_place(self, frame, place):
        c, p = self.loc(frame, place)
        return self.load(c, p)

    def write_place(self, frame, place, val):
        c, p = self.loc(frame, place)
        self.store(c, p, val)

    # ---------------------------------------------------------------- operands / rvalues
    def copy_val(self, v):
        if isinstance(v, Agg):
            if v.kind == "coroutine":
                return v
            return Agg(v.kind, v.name, [self.copy_val(x) for x in v.fields], v.variant, v.extra)
        return v

    def const(self, frame, c):
        k = c.kind
        if k == "int":
            bits, signed = INT_TYPES[c.ty]
            return IntV(c.value, bits, signed)
        if k == "bool":
            return c.value
        if k == "unit":
            return UNIT
        if k in ("str", "bytes"):
            return Ref(Cell(c.value, "const"), (), False)
        if k in ("char", "float"):
            return c.value
        if k == "alloc":
            a = frame.body.allocs.get(c.value)
            if a and a["static"]:
                return Ref(self.static_cell(a["static"]), (), False)
            if a and a["bytes"] is not None and ("[u8" in (c.ty or "") or "str" in (c.ty or "")):
                return Ref(Cell(a["bytes"], c.value), (), False)
            return Ref(Cell(Opaque("alloc", (c.value, c.ty)), c.value), (), False)
        if k == "path":
            t = c.value
            if t.startswith("{") or t.startswith("["):
                raise Unsupported("const " + t)
            # promoted / static / fn item / unit struct / enum unit variant
            s = strip_generics(t)
            parts = s.split("::")
            if len(parts) >= 2 and parts[-2] in self.prog.enums and parts[-1] in self.prog.enums[parts[-2]]:
                return mk_enum(parts[-2], parts[-1])
            if "promoted[" in t:
                return self.promoted(frame, t)
            mm = re.match(r"^(.*?): (.*)$", t)
            if mm:  # typed ZST const `Foo: Foo`
                return self.env.const_path(self, mm.group(1).strip(), mm.group(2), frame)
            return self.env.const_path(self, t, None, frame)
        raise Unsupported("const kind " + k)

    def promoted(self, frame, t):
        m = re.search(r"promoted\[(\d+)\]", t)
        name = frame.body.name + "::promoted[%s]" % m.group(1)
        b = self.prog.bodies.get(name)
        if b is None:
            raise Unsupported("promoted body " + name)
        key = "prom:" + name
        if key not in self.static_cells:
            v = self.call_body(b, [])
            self.static_cells[key] = Cell(v, key)
        return self.static_cells[key].value

    def static_cell(self, name):
        if name not in self.static_cells:
            c = Cell(UNINIT, "static " + name)
            self.static_cells[name] = c
            c.value = self.env.static_init(self, name)
        return self.static_cells[name]

    def operand(self, frame, op):
        if op.kind == "const":
            return self.const(frame, op.const)
        c, p = self.loc(frame, op.place)
        v = self.load(c, p)
        if v is UNINIT or v is MOVED:
            raise Unsupported("read of %r place %r in %s bb%d" % (v, op.place, frame.name, frame.bb))
        if op.kind == "move":
            self.store(c, p, MOVED)
            return v
        return self.copy_val(v)

    def binop(self, op, a, b):
        if isinstance(a, bool) or isinstance(b, bool) or isinstance(a, z3.BoolRef) or isinstance(b, z3.BoolRef):
            return self.bool_binop(op, a, b)
        if isinstance(a, Ref) and isinstance(b, Ref) and op in ("Eq", "Ne"):
            r = a.cell is b.cell and a.path == b.path
            return r if op == "Eq" else not r
        if not isinstance(a, IntV) or not isinstance(b, IntV):
            raise Unsupported("binop %s on %r, %r" % (op, a, b))
        bits, signed = a.bits, a.signed
        sym = a.is_sym() or b.is_sym()
        base = op.replace("Unchecked", "")
        if base.endswith("WithOverflow"):
            base0 = base[:-len("WithOverflow")]
            if not sym:
                full = {"Add": a.v + b.v, "Sub": a.v - b.v, "Mul": a.v * b.v}[base0]
                r = IntV(full, bits, signed)
                return Agg("tuple", "", [r, r.v != full])
            az, bz = a.z(), b.z()
            ext = z3.SignExt if signed else z3.ZeroExt
            wa, wb = ext(bits, az), ext(bits, bz)
            full = {"Add": wa + wb, "Sub": wa - wb, "Mul": wa * wb}[base0]
            r = z3.Extract(bits - 1, 0, full)
            ov = ext(bits, r) != full
            return Agg("tuple", "", [IntV(z3.simplify(r), bits, signed), z3.simplify(ov)])
        if base in ("Shl", "Shr"):
            if b.is_sym() or a.is_sym():
                bz = b.z()
                if b.bits < bits:
                    bz = z3.ZeroExt(bits - b.bits, bz)
                elif b.bits > bits:
                    bz = z3.Extract(bits - 1, 0, bz)
                r = a.z() << bz if base == "Shl" else (a.z() >> bz if signed else z3.LShR(a.z(), bz))
                return IntV(z3.simplify(r), bits, signed)
            sh = b.v % bits
            return IntV(a.v << sh if base == "Shl" else a.v >> sh, bits, signed)
        if not sym:
            x, y = a.v, b.v
            if base == "Add":
                return IntV(x + y, bits, signed)
            if base == "Sub":
                return IntV(x - y, bits, signed)
            if base == "Mul":
                return IntV(x * y, bits, signed)
            if base == "Div":
                if y == 0:
                    raise RustPanic("attempt to divide by zero")
                q = abs(x) // abs(y)
                return IntV(q if (x >= 0) == (y >= 0) else -q, bits, signed)
            if base == "Rem":
                if y == 0:
                    raise RustPanic("attempt to calculate the remainder with a divisor of zero")
                r = abs(x) % abs(y)
                return IntV(r if x >= 0 else -r, bits, signed)
            if base == "BitAnd":
                return IntV(x & y, bits, signed)
            if base == "BitOr":
                return IntV(x | y, bits, signed)
            if base == "BitXor":
                return IntV(x ^ y, bits, signed)
            if base == "Eq":
                return x == y
            if base == "Ne":
                return x != y
            if base == "Lt":
                return x < y
            if base == "Le":
                return x <= y
            if base == "Gt":
                return x > y
            if base == "Ge":
                return x >= y
            if base == "Cmp":
                return mk_enum("Ordering", "Less" if x < y else ("Equal" if x == y else "Greater"))
            raise Unsupported("binop " + op)
        az, bz = a.z(), b.z()
        if base == "Add":
            return IntV(z3.simplify(az + bz), bits, signed)
        if base == "Sub":
            return IntV(z3.simplify(az - bz), bits, signed)
        if base == "Mul":
            return IntV(z3.simplify(az * bz), bits, signed)
        if base == "Div":
            self.ex.check(None, bz != 0, "division by zero", panic=True)
            return IntV(z3.simplify(az / bz if signed else z3.UDiv(az, bz)), bits, signed)
        if base == "Rem":
            self.ex.check(None, bz != 0, "remainder by zero", panic=True)
            return IntV(z3.simplify(z3.SRem(az, bz) if signed else z3.URem(az, bz)), bits, signed)
        if base == "BitAnd":
            return IntV(z3.simplify(az & bz), bits, signed)
        if base == "BitOr":
            return IntV(z3.simplify(az | bz), bits, signed)
        if base == "BitXor":
            return IntV(z3.simplify(az ^ bz), bits, signed)
        if base == "Eq":
            return z3.simplify(az == bz)
        if base == "Ne":
            return z3.simplify(az != bz)
        if base == "Lt":
            return z3.simplify(az < bz if signed else z3.ULT(az, bz))
        if base == "Le":
            return z3.simplify(az <= bz if signed else z3.ULE(az, bz))
        if base == "Gt":
            return z3.simplify(az > bz if signed else z3.UGT(az, bz))
        if base == "Ge":
            return z3.simplify(az >= bz if signed else z3.UGE(az, bz))
        raise Unsupported("symbolic binop " + op)

    def bool_binop(self, op, a, b):
        conc = isinstance(a, bool) and isinstance(b, bool)
        if conc:
            return {"Eq": a == b, "Ne": a != b, "BitAnd": a and b, "BitOr": a or b, "BitXor": a != b,
                    "Lt": (not a) and b, "Le": (not a) or b, "Gt": a and not b, "Ge": a or not b}[op]
        za = z3.BoolVal(a) if isinstance(a, bool) else a
        zb = z3.BoolVal(b) if isinstance(b, bool) else b
        r = {"Eq": za == zb, "Ne": za != zb, "BitAnd": z3.And(za, zb), "BitOr": z3.Or(za, zb), "BitXor": z3.Xor(za, zb)}.get(op)
        if r is None:
            raise Unsupported("bool binop " + op)
        return z3.simplify(r)

    def cast(self, v, ty, kind):
        if kind.startswith("IntToInt"):
            bits, signed = INT_TYPES.get(ty.strip(), (None, None))
            if bits is None:
                if ty.strip() == "bool" or ty.strip() == "char":
                    return v
                raise Unsupported("cast to " + ty)
            if isinstance(v, bool):
                return IntV(1 if v else 0, bits, signed)
            if isinstance(v, z3.BoolRef):
                return IntV(z3.If(v, z3.BitVecVal(1, bits), z3.BitVecVal(0, bits)), bits, signed)
            if isinstance(v, Agg) and v.kind == "enum":
                return IntV(self.prog.enum_index(v.name, v.variant), bits, signed)
            if not isinstance(v, IntV):
                raise Unsupported("IntToInt of %r" % (v,))
            if not v.is_sym():
                return IntV(v.v, bits, signed)
            z = v.v
            if bits > v.bits:
                z = z3.SignExt(bits - v.bits, z) if v.signed else z3.ZeroExt(bits - v.bits, z)
            elif bits < v.bits:
                z = z3.Extract(bits - 1, 0, z)
            return IntV(z3.simplify(z), bits, signed)
        if kind.startswith("Transmute") or kind.startswith("PtrToPtr") or kind.startswith("PointerCoercion") or kind.startswith("Subtype"):
            if isinstance(v, BoxV) and ("*const" in ty or "*mut" in ty):
                return Ref(v.cell, (), True)
            return v
        if kind.startswith("PointerExposeProvenance") or kind.startswith("PointerWithExposedProvenance"):
            return v
        raise Unsupported("cast kind " + kind)

    def discriminant(self, v):
        if isinstance(v, Agg) and v.kind == "enum" and v.name == "Out" and isinstance(v.extra, dict) and "n" in v.extra:
            return IntV(v.extra["n"] if v.variant == "Disabled" else int(v.variant[1:]), 64, True)
        if isinstance(v, Agg) and v.kind == "enum":
            return IntV(self.prog.enum_index(v.name, v.variant), 64, True)
        if isinstance(v, Agg) and v.kind == "coroutine":
            raise Unsupported("discriminant of coroutine")
        if isinstance(v, ModelObj) and hasattr(v, "variant"):
            return IntV(self.prog.enum_index(v.enum_name, v.variant), 64, True)
        raise Unsupported("discriminant of %r" % (v,))

    def make_adt(self, frame, path, fields):
        vals = [self.operand(frame, o) for _n, o in fields]
        s = strip_generics(path)
        parts = [p for p in s.split("::") if p]
        if len(parts) >= 2 and parts[-2] == "Out" and "__tokio_select_util" in path:
            # tokio::select!'s per-invocation output enum `Out<_0, .., _{n-1}>`: n = number of type
            # arguments; variants _0 .. _{n-1}, Disabled
            mm = re.search(r"Out::<(.*)>::\w+$", path, re.S)
            n = len(split_top(mm.group(1))) if mm else len(self.prog.enums.get("Out", [])) - 1
            v = mk_enum("Out", parts[-1], *vals)
            v.extra = {"n": n}
            return v
        if len(parts) >= 2 and parts[-2] in self.prog.enums and parts[-1] in self.prog.enums[parts[-2]]:
            return mk_enum(parts[-2], parts[-1], *vals)
        name = parts[-1] if parts else s
        return Agg("struct", name, vals)

    def rvalue(self, frame, rv):
        k = rv.kind
        if k == "use":
            return self.operand(frame, rv.a)
        if k == "ref":
            c, p = self.loc(frame, rv.a)
            return Ref(c, p, rv.b != "shared")
        if k == "tls_ref":
            # single-threaded interpretation: a thread-local is a static
            return Ref(self.static_cell(rv.a), (), True)
        if k == "binop":
            return self.binop(rv.a, self.operand(frame, rv.b), self.operand(frame, rv.c))
        if k == "unop":
            v = self.operand(frame, rv.b)
            if rv.a == "Not":
                if isinstance(v, bool):
                    return not v
                if isinstance(v, z3.BoolRef):
                    return z3.simplify(z3.Not(v))
                if isinstance(v, IntV):
                    return IntV(~v.v if not v.is_sym() else z3.simplify(~v.v), v.bits, v.signed)
            if rv.a == "Neg" and isinstance(v, IntV):
                return IntV(-v.v if not v.is_sym() else z3.simplify(-v.v), v.bits, v.signed)
            raise Unsupported("unop %s %r" % (rv.a, v))
        if k == "discriminant":
            return self.discriminant(self.read_place(frame, rv.a))
        if k == "cast":
            return self.cast(self.operand(frame, rv.a), rv.b, rv.c)
        if k == "tuple":
            vals = [self.operand(frame, o) for o in rv.a]
            return UNIT if not vals else Agg("tuple", "", vals)
        if k == "array":
            return Agg("array", "", [self.operand(frame, o) for o in rv.a])
        if k == "repeat":
            v = self.operand(frame, rv.a)
            m = re.match(r"^(?:const )?(\d+)", rv.b)
            if not m:
                raise Unsupported("repeat count " + rv.b)
            return Agg("array", "", [self.copy_val(v) for _ in range(int(m.group(1)))])
        if k == "adt":
            return self.make_adt(frame, rv.a, rv.b)
        if k == "closure":
            return Agg("closure", rv.a, [self.operand(frame, o) for _n, o in rv.b], None, {"parent": frame.body.name})
        if k == "coroutine":
            return Agg("coroutine", rv.a, [self.operand(frame, o) for _n, o in rv.b], None,
                       {"parent": frame.body.name, "frame": None, "done": False, "poisoned": False})
        if k == "len":
            v = self.read_place(frame, rv.a)
            if isinstance(v, Agg):
                return IntV(len(v.fields), 64, False)
            if isinstance(v, (str, bytes)):
                return IntV(len(v), 64, False)
            raise Unsupported("Len of %r" % (v,))
        if k == "shallow_init_box":
            raise Unsupported("ShallowInitBox")
        if k == "nullary":
            if rv.a in ("UbChecks", "ContractChecks"):
                return False
            raise Unsupported("nullary " + rv.a)
        raise Unsupported("rvalue " + k)

    # ---------------------------------------------------------------- drop
    def drop_value(self, v):
        if v is UNINIT or v is MOVED or v is None:
            return
        if isinstance(v, ModelObj):
            v.drop(self)
            return
        if isinstance(v, BoxV):
            if v.kind == "Arc":
                v.rc[0] -= 1
                if v.rc[0] > 0:
                    return
            inner = v.cell.value
            v.cell.value = MOVED
            self.drop_value(inner)
            return
        if isinstance(v, Agg):
            if v.kind == "coroutine":
                self.drop_coroutine(v)
                return
            name = self.prog.impl_index.get((v.name, "Drop", "drop"))
            if name is not None:
                cell = Cell(v, "dropping " + v.name)
                self.call_body(self.prog.bodies[name], [Ref(cell, (), True)])
                v = cell.value
                if not isinstance(v, Agg):
                    return
            for f in v.fields:
                self.drop_value(f)
            return

    def drop_coroutine(self, co):
        st = co.extra
        if st.get("done") or st.get("poisoned") or st.get("dropped"):
            return
        st["dropped"] = True
        fr = st.get("frame")
        if fr is None:
            for f in co.fields:          # never resumed: only the upvars exist
                self.drop_value(f)
            return
        tgt = st.get("drop_bb")
        if tgt is None:
            raise Unsupported("suspended coroutine without drop edge")
        fr.bb = tgt
        r = self.run(fr, co)
        if r[0] != "dropped":
            raise Unsupported("coroutine drop path ended with %s" % r[0])

    # ---------------------------------------------------------------- calls
    def body_for_closure(self, v):
        m = re.match(r"^\{(?:closure|coroutine|async block|async closure)@(.*?)(?: \(#\d+\))?\}$", v.name)
        key = m.group(1) if m else v.name
        name = self.prog.closure_index.get(key)
        if name is None and v.extra and "parent" in v.extra:
            name = self.prog.closure_index.get("parent:" + v.extra["parent"])
        if name is None:
            raise Unsupported("no body for " + v.name)
        return self.prog.bodies[name]

    def call_closure(self, clo, args, by_ref=False):
        """FnOnce/FnMut/Fn::call*: args is the list of closure arguments"""
        if isinstance(clo, Ref):
            clo_v = self.load(clo.cell, clo.path)
            selfarg = clo
        else:
            clo_v = clo
            selfarg = clo
        if isinstance(clo_v, FnItem):
            return self.call_path(clo_v.path, args)
        if isinstance(clo_v, Agg) and clo_v.kind == "closure":
            b = self.body_for_closure(clo_v)
            want_ref = b.arg_types[0].strip().startswith("&")
            if want_ref and not isinstance(selfarg, Ref):
                selfarg = Ref(Cell(clo_v, "closure"), (), True)
            if not want_ref and isinstance(selfarg, Ref):
                selfarg = clo_v
            return self.call_body(b, [selfarg] + list(args))
        if callable(clo_v):
            return clo_v(self, *args)
        raise Unsupported("call of %r" % (clo_v,))

    def resume_coroutine(self, co, cx):
        """-> ('yield', v) | ('return', v)"""
        st = co.extra
        if st.get("done"):
            raise RustPanic("`async fn` resumed after completion")
        if st.get("poisoned"):
            raise RustPanic("`async fn` resumed after panicking")
        fr = st.get("frame")
        if fr is None:
            b = self.body_for_closure(co)
            fr = Frame(b)
            st["frame"] = fr
            fr.cell(1).value = Agg("struct", "upvars", co.fields)
            fr.cell(2).value = cx
            fr.bb = 0
        else:
            if fr.resume_dest is not None:
                self.write_place(fr, fr.resume_dest, cx)
        try:
            r = self.run(fr, co)
        except RustPanic:
            st["poisoned"] = True
            raise
        if r[0] == "return":
            st["done"] = True
        return r

    def call_body(self, body, args):
        if body.is_coroutine:
            raise Unsupported("direct call of coroutine body " + body.name)
        if len(args) != body.arg_count:
            raise Unsupported("arity mismatch calling %s: %d vs %d" % (body.name, len(args), body.arg_count))
        fr = Frame(body)
        for i, a in enumerate(args):
            fr.cell(i + 1).value = a
        r = self.run(fr, None)
        return r[1]

    def call_path(self, callee, args, frame=None):
        return self.env.call(self, callee, args, frame)

    # ---------------------------------------------------------------- main loop
    def run(self, fr, co):
        body = fr.body
        blocks = body.blocks
        self.depth += 1
        if self.depth > 400:
            raise Unsupported("call depth")
        try:
            while True:
                blk = blocks[fr.bb]
                for s in blk.stmts:
                    self.steps += 1
                    k = s.kind
                    if k == "assign":
                        v = self.rvalue(fr, s.rv)
                        c, p = self.loc(fr, s.place)
                        self.store(c, p, v)
                    elif k == "StorageLive":
                        pass
                    elif k == "StorageDead":
                        pass
                    elif k == "nop":
                        pass
                    elif k == "set_discriminant":
                        raise Unsupported("SetDiscriminant")
                    elif k == "deinit":
                        pass
                    elif k == "assume":
                        pass
                    else:
                        raise Unsupported("statement " + k)
                t = blk.term
                self.steps += 1
                if self.steps > self.ex.max_steps:
                    raise Unsupported("step budget exceeded (%d)" % self.steps)
                k = t.kind
                if k == "goto":
                    fr.bb = t.targets[0]
                elif k == "switch":
                    v = self.operand(fr, t.a)
                    fr.bb = self.switch(v, t.targets)
                elif k == "call":
                    try:
                        args = [self.operand(fr, a) for a in t.args]
                        callee = t.callee
                        if callee.startswith("move ") or callee.startswith("copy "):
                            from .mirparse import parse_operand
                            fv = self.operand(fr, parse_operand(callee))
                            r = self.call_closure(fv, args)
                        else:
                            r = self.call_path(callee, args, fr)
                    except RustPanic as pn:
                        self.panic_msg = pn.msg if pn.msg != "unwinding" else getattr(self, "panic_msg", "unwinding")
                        if t.unwind is None:
                            raise
                        fr.bb = t.unwind
                        self.env.unwinding_now = True
                        continue
                    if t.targets[0] is None:
                        raise Unsupported("diverging call returned: " + t.callee)
                    self.write_place(fr, t.dest, r)
                    fr.bb = t.targets[0]
                elif k == "drop":
                    c, p = self.loc(fr, t.a)
                    v = self.load(c, p)
                    try:
                        self.store(c, p, MOVED)
                        self.drop_value(v)
                    except RustPanic:
                        if t.unwind is None:
                            raise
                        fr.bb = t.unwind
                        continue
                    fr.bb = t.targets[0]
                elif k == "return":
                    return ("return", fr.cell(0).value)
                elif k == "yield":
                    v = self.operand(fr, t.a)
                    fr.resume_dest = t.dest
                    fr.bb = t.targets[0]
                    if co is not None:
                        co.extra["drop_bb"] = t.unwind
                    return ("yield", v)
                elif k == "coroutine_drop":
                    return ("dropped", None)
                elif k == "assert":
                    v = self.operand(fr, t.a)
                    ok = self.truth(v) == t.b
                    if ok:
                        fr.bb = t.targets[0]
                    else:
                        try:
                            raise RustPanic("MIR assert failed: " + t.text)
                        except RustPanic:
                            if t.unwind is None:
                                raise
                            fr.bb = t.unwind
                elif k == "resume":
                    raise RustPanic(getattr(self, "panic_msg", "unwinding"))
                elif k == "unreachable":
                    raise Unsupported("reached `unreachable` in %s bb%d" % (fr.name, fr.bb))
                elif k == "abort":
                    raise Unsupported("abort/terminate reached in " + fr.name)
                else:
                    raise Unsupported("terminator " + k)
        finally:
            self.depth -= 1

    def truth(self, v):
        if isinstance(v, bool):
            return v
        if isinstance(v, z3.BoolRef):
            return self.ex.branch_bool(v)
        if isinstance(v, IntV):
            if not v.is_sym():
                return v.v != 0
            return self.ex.branch_bool(v.v != 0)
        raise Unsupported("truth of %r" % (v,))

    def switch(self, v, targets):
        otherwise = None
        cases = []
        for val, bb in targets:
            if val is None:
                otherwise = bb
            else:
                cases.append((val, bb))
        if isinstance(v, bool):
            iv = 1 if v else 0
        elif isinstance(v, IntV) and not v.is_sym():
            iv = v.v
            if v.signed and iv < 0:
                iv += 1 << v.bits
        elif isinstance(v, z3.BoolRef):
            t = self.ex.branch_bool(v)
            iv = 1 if t else 0
        elif isinstance(v, IntV):
            conds = [v.z() == z3.BitVecVal(val, v.bits) for val, _ in cases]
            conds.append(z3.And([c == False for c in conds]) if conds else z3.BoolVal(True))  # noqa: E712
            i = self.ex.branch(conds)
            if i < len(cases):
                return cases[i][1]
            if otherwise is None:
                raise Unsupported("switch without otherwise")
            return otherwise
        else:
            raise Unsupported("switch on %r" % (v,))
        for val, bb in cases:
            if val == iv:
                return bb
        if otherwise is None:
            raise Unsupported("switch value %r has no target" % (iv,))
        return otherwise
