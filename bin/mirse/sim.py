"""Simulation layer: builds a system of actors and client tasks out of the interpreted crate
functions and runs it under a symbolic scheduler."""
from .interp import Interp
from .values import *  # noqa: F401,F403
from . import world as W


class Client(ModelObj):
    """a client task: a sequence of operations, each awaited to completion before the next.
    It owns one strong reference per actor it talks to (a real `ActorRef::clone`), dropped when
    the task ends (or explicitly by a `drop` op)."""
    type_name = "Client"

    def __init__(self, sim, name, ops, actors, keep_refs=False):
        self.sim, self.name, self.ops = sim, name, list(ops)
        self.i = 0
        self.cur = None
        self.results = []
        self.refs = {}
        self.weak = {}
        self.keep_refs = keep_refs
        self.routes = {}
        self.tmp_handles = []
        self.boxed = {}
        self.weak_boxed = {}
        it, w = sim.it, sim.w
        for a in actors:
            main = w.actors[a]["ref_cell"]
            self.refs[a] = Cell(w.call_trait_method(it, "ActorRef", "Clone", "clone", [Ref(main, (), False)]), "%s.ref[%s]" % (name, a))

    def ref(self, a):
        c = self.refs.get(a)
        if c is None or c.value is MOVED:
            raise Unsupported("client %s has no reference to %s" % (self.name, a))
        return Ref(c, (), False)

    # ---- type-erased routes (C16) -------------------------------------------------------
    ROUTES = ("direct", "from_ref", "from_owned", "clone_boxed", "weak_upgrade")

    def erased(self, it, actor, family, route):
        """build a strong erased handle (`Box<dyn TellHandler>` / `AskHandler` / `ActorControl`) for
        `actor` out of this client's own reference, through the route under test; returns the
        BoxV (the client owns it and drops it after the operation)"""
        from .builtins_std import pick_impl
        w = self.sim.w
        trait = {"tell": "TellHandler", "ask": "AskHandler", "control": "ActorControl"}[family]
        weak = {"tell": "WeakTellHandler", "ask": "WeakAskHandler", "control": "WeakActorControl"}[family]
        rf = self.ref(actor)

        def conv(tr, arg):
            name = pick_impl(w, it, "From", "from", [arg], tr)
            if name is None:
                raise Unsupported("no From impl into Box<dyn %s> for %r" % (tr, arg))
            return it.call_body(w.prog.bodies[name], [arg])
        if route == "from_ref":
            return conv(trait, rf)
        if route == "from_owned":
            owned = w.call_trait_method(it, "ActorRef", "Clone", "clone", [rf])
            return conv(trait, owned)
        if route == "clone_boxed":
            b = conv(trait, rf)
            b2 = w.call(it, "<dyn %s as %s>::clone_boxed" % (trait, trait), [Ref(b.cell, (), False)], None)
            it.drop_value(b)
            return b2
        if route == "weak_upgrade":
            b = conv(trait, rf)
            wk = w.call(it, "<dyn %s as %s>::downgrade" % (trait, trait), [Ref(b.cell, (), False)], None)
            it.drop_value(b)
            up = w.call(it, "<dyn %s as %s>::upgrade" % (weak, weak), [Ref(wk.cell, (), False)], None)
            it.drop_value(wk)
            if up.variant != "Some":
                return None
            return up.fields[0]
        raise Unsupported("route " + route)

    def start_erased(self, it, op, route):
        w = self.sim.w
        k = op[0]
        fam = "control" if k in ("stop", "kill", "is_alive", "identity") else ("tell" if k.startswith("tell") else "ask")
        h = self.erased(it, op[1], fam, route)
        if h is None:
            return ("val", "skipped:upgrade-failed")
        self.tmp_handles.append(h)
        recv = Ref(h.cell, (), False)
        if fam == "control" and route == "from_ref" and k in ("stop", "kill"):
            pass
        trait = {"tell": "TellHandler", "ask": "AskHandler", "control": "ActorControl"}[fam]
        meth = {"tell": "tell", "ask": "ask", "tell_t": "tell_with_timeout", "ask_t": "ask_with_timeout", "stop": "stop", "kill": "kill",
                "is_alive": "is_alive", "identity": "identity"}[k]
        args = [recv]
        if fam != "control":
            args.append(w.mk_msg(op[2]))
        if k.endswith("_t"):
            args.append(w.mk_duration(op[3]))
        r = w.call(it, "<dyn %s as %s>::%s" % (trait, trait, meth), args, None)
        if k in ("kill", "is_alive", "identity"):
            return ("val", r)
        return ("fut", r)

    def start(self, it, op):
        w = self.sim.w
        k = op[0]
        route = self.routes.get(self.i) if self.routes else None
        if route and route != "direct" and k in ("tell", "ask", "tell_t", "ask_t", "stop", "kill", "is_alive") and op[1] in self.refs and self.refs[op[1]].value is not MOVED:
            return self.start_erased(it, op, route)
        if k in ("tell", "ask", "tell_t", "ask_t", "tell_c", "ask_c", "ask_join", "stop", "kill", "is_alive", "downgrade", "btell", "bask", "btell_t", "bask_t", "tell_blocking", "ask_blocking") and (
                op[1] not in self.refs or self.refs[op[1]].value is MOVED):
            return ("val", "skipped:no-reference")
        if k in ("tellv", "askv"):
            # explicit message value (macro corpus)
            return ("fut", w.call_method(it, "ActorRef", "tell" if k == "tellv" else "ask", [self.ref(op[1]), op[2]]))
        if k in ("tell", "ask", "tell_t", "ask_t", "ask_join", "tell_c", "ask_c"):
            msg = w.mk_msg(op[2]) if k != "ask_join" else Agg("struct", "Spawning", [IntV(op[2], 8)])
            args = [self.ref(op[1]), msg]
            meth = {"tell": "tell", "ask": "ask", "tell_t": "tell_with_timeout", "ask_t": "ask_with_timeout", "ask_join": "ask_join",
                    "tell_c": "tell", "ask_c": "ask"}[k]
            if k.endswith("_t"):
                args.append(w.mk_duration(op[3]))
            via = op[4] if len(op) > 4 else None
            return ("fut", w.call_method(it, "ActorRef", meth, args))
        if k in ("btell", "bask", "btell_t", "bask_t", "tell_blocking", "ask_blocking"):
            # blocking API, called from a plain thread: the whole call happens inside this step
            meth = {"btell": "blocking_tell", "btell_t": "blocking_tell", "bask": "blocking_ask", "bask_t": "blocking_ask",
                    "tell_blocking": "tell_blocking", "ask_blocking": "ask_blocking"}[k]
            to = mk_none() if k in ("btell", "bask") else mk_some(w.mk_duration(op[3]))
            saved = getattr(w, "plain_thread", False)
            w.plain_thread = not getattr(self, "in_runtime", False)
            try:
                if route and route != "direct" and meth in ("blocking_tell", "blocking_ask"):
                    fam = "tell" if meth == "blocking_tell" else "ask"
                    h = self.erased(it, op[1], fam, route)
                    if h is None:
                        return ("val", "skipped:upgrade-failed")
                    self.tmp_handles.append(h)
                    trait = {"tell": "TellHandler", "ask": "AskHandler"}[fam]
                    r = w.call(it, "<dyn %s as %s>::%s" % (trait, trait, meth), [Ref(h.cell, (), False), w.mk_msg(op[2]), to], None)
                else:
                    r = w.call_method(it, "ActorRef", meth, [self.ref(op[1]), w.mk_msg(op[2]), to])
            except BlockedForever:
                r = "BLOCKED-FOREVER"
            finally:
                w.plain_thread = saved
            return ("val", r)
        if k == "stop":
            return ("fut", w.call_method(it, "ActorRef", "stop", [self.ref(op[1])]))
        if k == "kill":
            return ("val", w.call_method(it, "ActorRef", "kill", [self.ref(op[1])]))
        if k == "drop":
            c = self.refs[op[1]]
            v, c.value = c.value, MOVED
            it.drop_value(v)
            return ("val", UNIT)
        if k == "drop_main":
            c = w.actors[op[1]]["ref_cell"]
            v, c.value = c.value, MOVED
            it.drop_value(v)
            return ("val", UNIT)
        if k == "downgrade":
            self.weak[op[1]] = Cell(w.call_method(it, "ActorRef", "downgrade", [self.ref(op[1])]), "%s.weak[%s]" % (self.name, op[1]))
            return ("val", UNIT)
        if k == "into_boxed":
            # the client's reference is converted (by value) into a strong erased handle it keeps
            c = self.refs[op[1]]
            v, c.value = c.value, MOVED
            from .builtins_std import pick_impl
            tr = op[2]
            name = pick_impl(w, it, "From", "from", [v], tr)
            self.boxed[op[1]] = Cell(it.call_body(w.prog.bodies[name], [v]), "%s.boxed[%s]" % (self.name, op[1]))
            return ("val", UNIT)
        if k == "boxed_downgrade":
            # keep only a weak erased handle
            b = self.boxed[op[1]]
            tr = op[2]
            wk = w.call(it, "<dyn %s as %s>::downgrade" % (tr, tr), [Ref(b.value.cell, (), False)], None)
            v, b.value = b.value, MOVED
            it.drop_value(v)
            self.weak_boxed[op[1]] = Cell(wk, "weakboxed")
            return ("val", UNIT)
        if k == "boxed_tell":
            b = self.boxed[op[1]]
            if b.value is MOVED:
                return ("val", "skipped:no-handle")
            return ("fut", w.call(it, "<dyn TellHandler as TellHandler>::tell", [Ref(b.value.cell, (), False), w.mk_msg(op[2])], None))
        if k in ("upgrade", "weak_is_alive"):
            a = w.actors[op[1]]
            it.ex.event(ev="strong_count", actor=op[1], mailbox=a["mailbox"].tx_count, term=a["term"].tx_count, client=self.name, i=self.i)
        if k == "upgrade":
            r = w.call_method(it, "ActorWeak", "upgrade", [Ref(self.weak[op[1]], (), False)])
            if r.variant == "Some":
                old = self.refs.get(op[1])
                if old is not None and old.value is not MOVED:
                    it.drop_value(old.value)
                self.refs[op[1]] = Cell(r.fields[0], "%s.ref[%s]" % (self.name, op[1]))
            return ("val", r.variant == "Some")
        if k == "is_alive":
            return ("val", w.call_method(it, "ActorRef", "is_alive", [self.ref(op[1])]))
        if k == "weak_is_alive":
            return ("val", w.call_method(it, "ActorWeak", "is_alive", [Ref(self.weak[op[1]], (), False)]))
        if k == "weak_routes":
            # ActorWeak::upgrade().is_some() directly and through every erased weak handle
            a = op[1]
            wkc = self.weak[a]
            from .builtins_std import pick_impl
            res = []
            up = w.call_method(it, "ActorWeak", "upgrade", [Ref(wkc, (), False)])
            res.append(up.variant == "Some")
            if up.variant == "Some":
                it.drop_value(up.fields[0])
            for tr_ in ("WeakTellHandler", "WeakAskHandler", "WeakActorControl"):
                name = pick_impl(w, it, "From", "from", [Ref(wkc, (), False)], tr_)
                h = it.call_body(w.prog.bodies[name], [Ref(wkc, (), False)])
                u = w.call(it, "<dyn %s as %s>::upgrade" % (tr_, tr_), [Ref(h.cell, (), False)], None)
                res.append(u.variant == "Some")
                if u.variant == "Some":
                    it.drop_value(u.fields[0])
                alive = w.call(it, "<dyn %s as %s>::is_alive" % (tr_, tr_), [Ref(h.cell, (), False)], None) if tr_ == "WeakActorControl" else None
                it.drop_value(h)
            return ("val", Agg("array", "", res))
        if k == "identities":
            # identity() through every kind of handle derived from this client's reference
            a = op[1]
            rf = self.ref(a)
            out = []
            out.append(w.call_method(it, "ActorRef", "identity", [rf]))
            cl = Cell(w.call_trait_method(it, "ActorRef", "Clone", "clone", [rf]), "tmpclone")
            out.append(w.call_method(it, "ActorRef", "identity", [Ref(cl, (), False)]))
            wk = Cell(w.call_method(it, "ActorRef", "downgrade", [rf]), "tmpweak")
            out.append(w.call_method(it, "ActorWeak", "identity", [Ref(wk, (), False)]))
            wk2 = Cell(w.call_trait_method(it, "ActorWeak", "Clone", "clone", [Ref(wk, (), False)]), "tmpweak2")
            out.append(w.call_method(it, "ActorWeak", "identity", [Ref(wk2, (), False)]))
            up = w.call_method(it, "ActorWeak", "upgrade", [Ref(wk, (), False)])
            if up.variant == "Some":
                out.append(w.call_method(it, "ActorRef", "identity", [Ref(Cell(up.fields[0], "tmpup"), (), False)]))
                it.drop_value(up.fields[0])
            for fam, tr in (("tell", "TellHandler"), ("ask", "AskHandler"), ("control", "ActorControl")):
                h = self.erased(it, a, fam, "from_ref")
                if fam == "control":
                    out.append(w.call(it, "<dyn ActorControl as ActorControl>::identity", [Ref(h.cell, (), False)], None))
                    wkc = w.call(it, "<dyn ActorControl as ActorControl>::downgrade", [Ref(h.cell, (), False)], None)
                    out.append(w.call(it, "<dyn WeakActorControl as WeakActorControl>::identity", [Ref(wkc.cell, (), False)], None))
                    it.drop_value(wkc)
                else:
                    ctl = w.call(it, "<dyn %s as %s>::as_control" % (tr, tr), [Ref(h.cell, (), False)], None)
                    out.append(w.call(it, "<dyn ActorControl as ActorControl>::identity", [ctl], None))
                it.drop_value(h)
            it.drop_value(cl.value)
            it.drop_value(wk.value)
            it.drop_value(wk2.value)
            return ("val", Agg("array", "", out))
        if k == "yield":
            return ("fut", Yield())
        raise Unsupported("client op " + k)

    def poll(self, it, cx):
        w = self.sim.w
        while True:
            if self.cur is None:
                if self.i >= len(self.ops):
                    if not self.keep_refs:
                        for c in list(self.boxed.values()) + list(self.weak_boxed.values()) + list(self.refs.values()):
                            if c.value is not MOVED:
                                v, c.value = c.value, MOVED
                                it.drop_value(v)
                    return mk_ready(UNIT)
                op = self.ops[self.i]
                it.ex.event(ev="op_start", client=self.name, i=self.i, op=[str(x) if not isinstance(x, (int, str)) else x for x in op],
                            clock=self.sim.tick(), now_raw=w.now)
                kind, v = self.start(it, op)
                if kind == "val":
                    self.finish_op(it, op, v)
                    continue
                self.cur = v
            r = w.poll_future(it, self.cur, cx)
            if r.variant == "Pending":
                return mk_pending()
            op = self.ops[self.i]
            it.drop_value(self.cur)
            self.cur = None
            self.finish_op(it, op, r.fields[0])

    def can_cancel(self):
        """the operation in flight is a cancellable one (tell_c / ask_c) that has been polled and
        is pending: its future may be dropped at any moment (select!, timeout, abort)"""
        return self.cur is not None and self.i < len(self.ops) and self.ops[self.i][0] in ("tell_c", "ask_c")

    def cancel(self, it):
        op = self.ops[self.i]
        it.ex.event(ev="op_cancel", client=self.name, i=self.i, clock=self.sim.tick())
        fut, self.cur = self.cur, None
        it.drop_value(fut)
        self.finish_op(it, op, "cancelled")
        # the client goes on with its next operation; the step conflicts with everything
        self.task.self_wake = True
        self.sim.w.cur_fp[("*",)] = "w"

    def finish_op(self, it, op, v):
        w = self.sim.w
        while self.tmp_handles:
            it.drop_value(self.tmp_handles.pop())
        self.results.append(v)
        it.ex.event(ev="op_done", client=self.name, i=self.i, op=[str(x) if not isinstance(x, (int, str)) else x for x in op],
                    result=w.describe(v), clock=self.sim.tick(), now=w.now if isinstance(w.now, int) else str(w.now), now_raw=w.now)
        self.i += 1

    def drop(self, it):
        if self.cur is not None:
            it.drop_value(self.cur)
        if self.keep_refs and self.i >= len(self.ops):
            return
        for c in list(self.boxed.values()) + list(self.weak_boxed.values()):
            if c.value is not MOVED:
                v, c.value = c.value, MOVED
                it.drop_value(v)
        for c in self.refs.values():
            if c.value is not MOVED:
                v, c.value = c.value, MOVED
                it.drop_value(v)


class Yield(ModelObj):
    type_name = "Yield"

    def __init__(self):
        self.done = False

    def poll(self, it, cx):
        if self.done:
            return mk_ready(UNIT)
        self.done = True
        it.env.current_task_self_wake()
        return mk_pending()


class Sim:
    def __init__(self, prog, ex):
        self.prog, self.ex = prog, ex
        self.w = W.World(prog, ex)
        self.it = Interp(prog, ex, self.w)
        self.w.sim = self
        self.clock = 0
        self.clients = {}
        self.bound_hit = False
        self.extra_actions = []     # (guard() -> bool, run(), label)

    def tick(self):
        self.clock += 1
        return self.clock

    # ---- construction -----------------------------------------------------------------
    def spawn_actor(self, script, cap=None):
        """through the real spawn / spawn_with_mailbox_capacity"""
        w, it = self.w, self.it
        w.actors[script.name] = {"script": script}
        nch = len(w.chans)
        if cap is None:
            r = it.call_path("spawn::<T>", [script])
        else:
            r = it.call_path("spawn_with_mailbox_capacity::<T>", [script, IntV(cap, 64)])
        refv, jh = r.fields
        t = w.last_spawn
        t.name = "actor:" + script.name
        a = w.actors[script.name]
        a.update(ref_cell=Cell(refv, "main-ref[%s]" % script.name), jh=jh, task=t,
                 mailbox=refv.fields[1].chan, term=refv.fields[2].chan, id=refv.fields[0].fields[0])
        a["mailbox"].kind = "mailbox:" + script.name
        a["term"].kind = "term:" + script.name
        self.ex.event(ev="setup_actor", name=script.name, cap=cap)
        return a

    def spawn_value(self, name, args_value, cap):
        """spawn a concrete (non-scripted) actor type through the real spawn_with_mailbox_capacity"""
        w, it = self.w, self.it
        w.actors[name] = {"script": W.Script(name)}
        r = it.call_path("spawn_with_mailbox_capacity::<T>", [args_value, IntV(cap, 64)])
        refv, jh = r.fields
        t = w.last_spawn
        t.name = "actor:" + name
        a = w.actors[name]
        a.update(ref_cell=Cell(refv, "main-ref[%s]" % name), jh=jh, task=t, mailbox=refv.fields[1].chan, term=refv.fields[2].chan, id=refv.fields[0].fields[0])
        a["mailbox"].kind = "mailbox:" + name
        a["term"].kind = "term:" + name
        return a

    def client(self, name, ops, actors, keep_refs=False):
        c = Client(self, name, ops, actors, keep_refs)
        t = W.Task(self.w, "client:" + name, c)
        c.task = t
        self.clients[name] = c
        self.ex.event(ev="setup_client", name=name)
        return c

    def give_ref(self, holder, target):
        self.ex.event(ev="setup_give_ref", holder=holder, target=target)
        return self._give_ref(holder, target)

    def _give_ref(self, holder, target):
        """the scripted actor `holder` owns a strong reference to `target` (used by its hooks)"""
        w, it = self.w, self.it
        main = w.actors[target]["ref_cell"]
        c = Cell(w.call_trait_method(it, "ActorRef", "Clone", "clone", [Ref(main, (), False)]), "%s.peer[%s]" % (holder, target))
        w.actors[holder].setdefault("peer_refs", {})[target] = c

    def drop_main(self, actor):
        c = self.w.actors[actor]["ref_cell"]
        self.ex.event(ev="setup_drop_main", name=actor)
        if c.value is not MOVED:
            v, c.value = c.value, MOVED
            self.it.drop_value(v)

    # ---- scheduling ---------------------------------------------------------------------
    def options(self):
        w = self.w
        opts = [("poll", t) for t in w.tasks if w.runnable(t)]
        for g, run, label in self.extra_actions:
            if g():
                opts.append(("act", (run, label)))
        return opts

    def run(self, max_steps=60):
        """symbolic schedule until quiescence (no task can make progress and no environment
        action is enabled) or the step bound"""
        w, it, ex = self.w, self.it, self.ex
        n = 0
        while True:
            opts = self.options()
            if not opts:
                return
            if n >= max_steps:
                self.bound_hit = True
                return
            names = [x.name if kind == "poll" else "env:" + x[1] for kind, x in opts]
            k = ex.sched(names)
            kind, x = opts[k]
            if kind == "poll":
                ex.event(ev="sched", task=x.name, clock=self.tick(), now_raw=w.now)
                w.poll_task(it, x)
            else:
                ex.event(ev="env", what=x[1], clock=self.tick())
                w.cur_fp = {}
                x[0]()
            ex.sched_done(w.cur_fp)
            n += 1

    def run_fair_excluding(self, excl, rounds=50):
        w, it = self.w, self.it
        for _ in range(rounds):
            progressed = False
            for t in list(w.tasks):
                if t is not excl and w.runnable(t):
                    self.ex.event(ev="sched", task=t.name, clock=self.tick())
                    w.poll_task(it, t)
                    progressed = True
            if not progressed:
                return True
        self.bound_hit = True
        return False

    def run_fair(self, rounds=50):
        """deterministic round-robin until quiescence (used for drains and for `block_on`)"""
        w, it = self.w, self.it
        for _ in range(rounds):
            progressed = False
            for t in list(w.tasks):
                if w.runnable(t):
                    self.ex.event(ev="sched", task=t.name, clock=self.tick())
                    w.poll_task(it, t)
                    progressed = True
            if not progressed:
                return True
        self.bound_hit = True
        return False
