"""Cross-validation of the MIR interpreter against native execution of the compiled crate.

For a sample of the paths explored by a check, the scenario is serialised (scripts, client
operation lists, the exact sequence of setup actions, task polls and clock advances taken by the
interpreter's scheduler, symbolic inputs replaced by the values of a z3 model of the path
condition) and executed by `harness/xval.rs`: the real rsactor code compiled by rustc, the Rust
tokio model, a native executor that polls exactly the same tasks in the same order.  The two
event traces must be identical.  A disagreement is reported as *inconclusive* (the encoding or a
model is wrong), never as a verdict about rsactor."""
import os
import re
import subprocess
import time

import z3

from .values import IntV

SUPPORTED_OPS = {"tell", "ask", "tell_t", "ask_t", "stop", "kill", "is_alive", "drop", "yield"}


def concretize(ex, v):
    if isinstance(v, IntV):
        v = v.v
    if isinstance(v, int):
        return v
    if isinstance(v, z3.ExprRef):
        m = getattr(ex, "_model", None)
        if m is None:
            if ex.solver.check() != z3.sat:
                return None
            m = ex.solver.model()
            ex._model = m
        return m.eval(v, model_completion=True).as_long()
    return v


def supported(ex, sim):
    w = sim.w
    for a in w.actors.values():
        sc = a["script"]
        if sc.handler_actions or sc.on_start_actions or sc.on_run_actions or sc.on_stop_actions or a.get("peer_refs"):
            return False
    for c in sim.clients.values():
        if c.routes or c.boxed or c.weak_boxed:
            return False
        for op in c.ops:
            if op[0] not in SUPPORTED_OPS:
                return False
    if any(e.get("nested") for e in ex.events):
        return False
    return True


def pair(x):
    return "%s:%s" % (x[0], x[1])


def spec_of(ex, sim):
    w = sim.w
    lines = []
    for e in ex.events:
        k = e["ev"]
        if k == "setup_actor":
            sc = w.actors[e["name"]]["script"]
            hy = ",".join("%s:%s" % (kk, vv) for kk, vv in sc.handler_yields.items())
            lines.append("actor %s cap=%s on_start=%s on_run=%s on_run_default=%s on_stop=%s hy=%s panics=%s err_tag=%d" % (
                sc.name, e["cap"] if e["cap"] is not None else "default", pair(sc.on_start), ",".join(pair(x) for x in sc.on_run), pair(sc.on_run_default), pair(sc.on_stop), hy,
                ",".join(str(x) for x in sc.handler_panics if isinstance(x, int)), sc.err_tag))
        elif k == "setup_client":
            c = sim.clients[e["name"]]
            ops = []
            for op in c.ops:
                parts = [str(op[0])] + [str(concretize(ex, x)) if not isinstance(x, str) else x for x in op[1:]]
                ops.append(":".join(parts))
            lines.append("client %s keep=%d refs=%s ops=%s" % (c.name, 1 if c.keep_refs else 0, ",".join(c.refs.keys()), ";".join(ops)))
        elif k == "setup_drop_main":
            lines.append("drop_main %s" % e["name"])
        elif k == "poll":
            lines.append("poll %s" % e["task"])
        elif k == "clock":
            lines.append("clock %d" % concretize(ex, e["d_raw"]))
    return "\n".join(lines) + "\n"


def canon_result(r):
    s = str(r)
    if s.startswith("Err("):
        m = re.match(r"^Err\((\w+)", s)
        return "Err(%s)" % m.group(1) if m else s
    if s == "True":
        return "true"
    if s == "False":
        return "false"
    return s


def canon_events(ex, sim):
    w = sim.w
    out = []
    for e in ex.events:
        k = e["ev"]
        if k == "hook_enter":
            if e["hook"] == "on_stop":
                out.append("hook_enter %s on_stop killed=%s" % (e["actor"], str(e["killed"]).lower()))
            elif e["hook"] == "handler":
                out.append("hook_enter %s handler %s" % (e["actor"], e["msg"]))
            else:
                out.append("hook_enter %s %s" % (e["actor"], e["hook"]))
        elif k == "hook_exit":
            o = str(e["out"])
            if e["hook"] == "on_start":
                o = "Ok" if o.startswith("Ok") else o
            elif e["hook"] == "on_run":
                o = {"Ok(True)": "Ok(true)", "Ok(False)": "Ok(false)"}.get(o, o)
            elif e["hook"] == "on_stop":
                o = "Ok" if o.startswith("Ok") else o
            if e["hook"] == "handler":
                out.append("hook_exit %s handler %s %s" % (e["actor"], e["msg"], o))
            else:
                out.append("hook_exit %s %s %s" % (e["actor"], e["hook"], o))
        elif k == "on_tell_result":
            out.append("on_tell_result %s" % e["result"])
        elif k == "op_done":
            out.append("op_done %s %d %s" % (e["client"], e["i"], canon_result(e["result"])))
        elif k == "task_finished":
            out.append("task_end %s finished" % e["task"])
        elif k == "task_panicked":
            out.append("task_end %s panicked" % e["task"])
    for name, a in w.actors.items():
        t = a["task"]
        if t.state in ("finished", "taken"):
            r = t.result
            if r.variant == "Completed":
                out.append("result %s Completed counter=%s killed=%s" % (name, w.describe(r.fields[0].fields[0]), str(r.fields[1]).lower()))
            else:
                act, err, phase, killed = r.fields
                out.append("result %s Failed counter=%s error=%s phase=%s killed=%s" % (
                    name, w.describe(act.fields[0].fields[0]) if act.variant == "Some" else -1, w.describe(err), phase.variant, str(killed).lower()))
        elif t.state == "panicked":
            out.append("result %s JoinError panic=true" % name)
        else:
            out.append("result %s running" % name)
    return out


_built = {}


def build_native(work, features, repo):
    """the native runner: the overlay compiled by the default toolchain with `verif-native`"""
    key = ",".join(sorted(features))
    ov = os.path.join(work, "xv", "ov")
    env = dict(os.environ, VERIF_REPO=repo, CARGO_NET_OFFLINE="true")
    subprocess.run(["/verif/bin/mk_overlay.sh", ov], check=True, env=env, stdout=subprocess.PIPE, stderr=subprocess.STDOUT)
    feats = ["verif-native"] + [f for f in features]
    cmd = ["cargo", "test", "--offline", "--lib", "--features", ",".join(feats), "--no-run", "--message-format=short", "--target-dir", os.path.join(work, "xv", "target")]
    p = subprocess.run(cmd, cwd=ov, env=env, stdout=subprocess.PIPE, stderr=subprocess.STDOUT)
    log = p.stdout.decode("utf-8", "replace")
    if p.returncode != 0:
        return None, log
    m = re.search(r"Executable unittests src/lib.rs \((.*?)\)", log)
    if not m:
        return None, log
    return m.group(1), log


def run_native(binary, specs, work):
    """specs: list of (id, text) -> dict id -> list of event lines"""
    d = os.path.join(work, "xv")
    os.makedirs(d, exist_ok=True)
    path = os.path.join(d, "specs_%d.txt" % os.getpid())
    with open(path, "w") as f:
        for i, t in specs:
            f.write("=== %s\n%s" % (i, t))
    env = dict(os.environ, XVAL_SPECS=path)
    p = subprocess.run([binary, "xval_run", "--exact", "verif_h::xval::t::xval_run", "--test-threads=1"], env=env, stdout=subprocess.PIPE, stderr=subprocess.STDOUT, timeout=300)
    outp = path + ".out"
    res = {}
    if not os.path.exists(outp):
        return None, p.stdout.decode("utf-8", "replace")[-800:]
    cur = None
    for line in open(outp).read().split("\n"):
        if line.startswith("=== "):
            cur = line[4:]
            res[cur] = []
        elif cur is not None and line:
            res[cur].append(line)
    os.remove(path)
    os.remove(outp)
    return res, ""


def first_diff(a, b):
    for i in range(max(len(a), len(b))):
        x = a[i] if i < len(a) else "<end>"
        y = b[i] if i < len(b) else "<end>"
        if x != y:
            return i, x, y
    return None
