"""Call dispatch: crate bodies (interpreted MIR), tokio model, std builtins, scripted actor."""
import re

import z3

from .mirparse import strip_generics, match_close, split_top
from .values import *  # noqa: F401,F403
from . import world as W


def deref(it, v):
    """value behind a reference / Pin / Box (one or more levels), without moving it"""
    while True:
        if isinstance(v, Agg) and v.name == "Pin":
            v = v.fields[0]
        elif isinstance(v, Ref):
            v = it.load(v.cell, v.path)
        elif isinstance(v, BoxV) and v.kind != "Arc":
            v = v.cell.value
        else:
            return v


def deref1(it, v):
    if isinstance(v, Ref):
        return it.load(v.cell, v.path)
    return v


def type_args(callee):
    """text of the last turbofish in the callee: `record::<M>` -> ['M']"""
    i = callee.rfind("::<")
    if i < 0:
        return []
    j = match_close(callee, i + 2)
    return split_top(callee[i + 3:j])


def clone_value(w, it, v):
    if isinstance(v, ModelObj):
        if hasattr(v, "clone"):
            return v.clone(it)
        raise Unsupported("clone of " + v.type_name)
    if isinstance(v, BoxV):
        if v.kind == "Arc":
            v.rc[0] += 1
            return BoxV(v.cell, "Arc", v.rc)
        return BoxV(Cell(clone_value(w, it, v.cell.value), "box"), v.kind)
    if isinstance(v, Agg):
        name = w.prog.impl_index.get((v.name, "Clone", "clone"))
        if name is not None and v.kind != "enum" and not w.prog.bodies[name].header.startswith("fn <impl") :
            pass
        if name is not None and "derive" not in name and _is_manual_impl(w, name):
            return it.call_body(w.prog.bodies[name], [Ref(Cell(v, "cloned"), (), False)])
        return Agg(v.kind, v.name, [clone_value(w, it, f) for f in v.fields], v.variant, v.extra)
    return v


_manual_cache = {}


def _is_manual_impl(w, name):
    """derive(Clone) bodies are field-wise clones: interpreting them is equivalent but slower;
    manual impls (ActorRef / ActorWeak) must be interpreted."""
    if name in _manual_cache:
        return _manual_cache[name]
    m = re.search(r"<impl at (.*?):(\d+):(\d+): (\d+):(\d+)>", w.prog.bodies[name].name if name in w.prog.bodies else name)
    r = True
    if m:
        rel = m.group(1)
        rel = rel[4:] if rel.startswith("src/") else rel
        lines = w.prog.src_lines(rel)
        ln = int(m.group(2))
        if ln - 1 < len(lines) and "#[derive" in lines[ln - 1]:
            r = False
    _manual_cache[name] = r
    return r


def eq_value(w, it, a, b):
    a, b = deref(it, a), deref(it, b)
    if isinstance(a, IntV) and isinstance(b, IntV):
        return it.binop("Eq", a, b)
    if isinstance(a, Agg) and isinstance(b, Agg):
        if a.variant != b.variant or len(a.fields) != len(b.fields):
            return False
        r = True
        for x, y in zip(a.fields, b.fields):
            e = eq_value(w, it, x, y)
            r = e if r is True else (False if e is False else (r if e is True else z3.And(r, e)))
            if r is False:
                return False
        return r
    return a == b


# ---------------------------------------------------------------------------------------
def dispatch(w, it, callee, args, frame):
    n = strip_generics(callee)
    # 1. qualified paths <Self as Trait>::method
    m = re.match(r"^<(.*) as ([\w:]+)>::(\w+)$", n)
    if m:
        selfty, trait, meth = m.group(1).strip(), m.group(2).split("::")[-1], m.group(3)
        return call_trait(w, it, selfty, trait, meth, args, callee, frame)
    # 2. builtin table (full path, then shorter suffixes)
    parts = n.split("::")
    for k in range(len(parts)):
        key = "::".join(parts[k:])
        f = w.builtins.get(key)
        if f is not None:
            return f(w, it, args, callee)
    # 3. crate: inherent method / free fn / closure-less paths
    if len(parts) >= 2:
        key = (parts[-2], None, parts[-1])
        name = w.prog.impl_index.get(key)
        if name is not None:
            return crate_call(w, it, name, args, callee)
    cands = w.prog.free_index.get(parts[-1])
    if cands:
        if len(cands) == 1:
            return crate_call(w, it, cands[0], args, callee)
        nm = lambda c: w.prog.bodies[c].name
        best = [c for c in cands if nm(c).endswith("::".join(parts[-2:]))] or [c for c in cands if nm(c).split("::")[-1] == parts[-1]]
        if len(best) >= 1:
            return crate_call(w, it, best[0], args, callee)
    # enum/struct constructor used as a function (e.g. `MailboxMessage::StopGracefully(x)`)
    if len(parts) >= 2 and parts[-2] in w.prog.enums and parts[-1] in w.prog.enums[parts[-2]]:
        return mk_enum(parts[-2], parts[-1], *args)
    raise Unsupported("call to unknown function `%s`" % callee[:160])


def crate_call(w, it, name, args, callee):
    b = w.prog.bodies[name]
    short = b.name.split("::")[-1]
    if short == "record" and "dead_letter" in b.name:
        # observe the dead letter (reason, operation, target) and still run the real body
        reason = args[1].variant if isinstance(args[1], Agg) else str(args[1])
        ident = args[0]
        opl = deref(it, args[2])
        w.dead_letters.append({"reason": reason, "op": opl, "id": w.describe(ident.fields[0]) if isinstance(ident, Agg) else None})
        it.ex.event(ev="dead_letter", reason=reason, op=opl, id=w.dead_letters[-1]["id"])
    if len(b.blocks) == 1 and b.is_coroutine is False and b.ret_type.startswith("{async"):
        pass
    return it.call_body(b, args)


def recv_type(it, v):
    v = deref(it, v)
    if isinstance(v, Agg):
        return v.name
    if isinstance(v, ModelObj):
        return v.type_name
    return None


def call_trait(w, it, selfty, trait, meth, args, callee, frame):
    key = (trait, meth)
    # ---- the future protocol
    if key == ("Future", "poll"):
        return w.poll_future(it, args[0], args[1])
    if key == ("IntoFuture", "into_future"):
        return args[0]
    if key == ("Instrument", "instrument"):
        return args[0]
    if trait in ("Add", "Sub", "Mul", "Div", "AddAssign", "SubAssign") and args and isinstance(deref(it, args[0]), Agg) and deref(it, args[0]).name == "Duration":
        kind = {"Add": "add", "Sub": "sub", "Mul": "mul", "Div": "div", "AddAssign": "add", "SubAssign": "sub"}[trait]
        r = w.dur_arith(kind)(w, it, args, callee)
        if trait.endswith("Assign"):
            deref(it, args[0]).fields[0] = r.fields[0]
            return UNIT
        return r
    if key == ("FutureExt", "now_or_never"):
        return w.builtins["now_or_never"](w, it, args, callee)
    if key == ("FutureExt", "boxed"):
        return BoxV(Cell(args[0], "boxed future"), "Box")
    # ---- scripted user actor
    if trait == "Actor" and meth in ("on_start", "on_run", "on_stop") and is_type_param(selfty):
        return actor_hook(w, it, meth, args)
    if trait == "Message" and meth in ("handle", "on_tell_result") and is_type_param(selfty):
        return message_hook(w, it, meth, args)
    # ---- clone / drop / deref
    if key == ("Clone", "clone"):
        return clone_value(w, it, deref1(it, args[0]))
    if key == ("Drop", "drop"):
        v = deref1(it, args[0])
        if isinstance(v, BoxV):
            return UNIT              # Box<T> as Drop: frees the allocation after the content moved out
        name = w.prog.impl_index.get((recv_type(it, args[0]), "Drop", "drop"))
        if name:
            return it.call_body(w.prog.bodies[name], args)
        return UNIT
    if key in (("Deref", "deref"), ("DerefMut", "deref_mut"), ("AsRef", "as_ref"), ("Borrow", "borrow")):
        v = deref1(it, args[0])
        if isinstance(v, BoxV):
            return Ref(v.cell, (), meth != "deref")
        if isinstance(v, ModelObj) and hasattr(v, "deref"):
            return v.deref(it)
        if isinstance(v, ModelObj):
            return args[0]
        if isinstance(v, (str, bytes)):
            return args[0]
        raise Unsupported("deref of %r" % (v,))
    if key == ("ToString", "to_string"):
        v = deref(it, args[0])
        if isinstance(v, str):
            return v
        if isinstance(v, Agg) and v.name == "Identity":
            return "%s(#%s)" % (w.describe(v.fields[1]), w.describe(v.fields[0]))
        return str(w.describe(v))
    if key == ("Try", "branch"):
        v = args[0]
        if v.name == "Result":
            if v.variant == "Ok":
                return mk_enum("ControlFlow", "Continue", v.fields[0])
            return mk_enum("ControlFlow", "Break", mk_err(v.fields[0]))
        if v.name == "Option":
            if v.variant == "Some":
                return mk_enum("ControlFlow", "Continue", v.fields[0])
            return mk_enum("ControlFlow", "Break", mk_none())
        raise Unsupported("Try::branch on " + v.name)
    if key == ("FromResidual", "from_residual"):
        v = args[0]
        if v.name == "Result":
            return mk_err(v.fields[0])
        return mk_none()
    if key in (("Into", "into"), ("From", "from"), ("TryFrom", "try_from"), ("TryInto", "try_into")) and args and isinstance(args[0], (IntV, bool)):
        # integer widening / conversion: <u64 as From<u32>>::from, <u32 as Into<u64>>::into
        from .mirparse import INT_TYPES
        if meth in ("from", "try_from"):
            tgt = selfty.strip()
        else:
            mm = re.search(r"(?:Into|TryInto)<\s*([a-z0-9]+)\s*>", callee)
            tgt = mm.group(1) if mm else ""
        if tgt in INT_TYPES:
            v = it.cast(args[0], tgt, "IntToInt")
            if meth.startswith("try_"):
                src = args[0]
                if isinstance(src, IntV) and not src.is_sym():
                    bits, signed = INT_TYPES[tgt]
                    lo, hi = (-(1 << (bits - 1)), (1 << (bits - 1)) - 1) if signed else (0, (1 << bits) - 1)
                    return mk_ok(v) if lo <= src.v <= hi else mk_err(Agg("struct", "TryFromIntError", []))
                raise Unsupported("symbolic TryFrom")
            return v
    if key in (("Into", "into"), ("From", "from")):
        name = pick_impl(w, it, trait if trait == "From" else "From", "from", args)
        if name:
            return it.call_body(w.prog.bodies[name], args)
        return args[0]
    if key == ("Default", "default"):
        t = selfty.strip()
        from .mirparse import INT_TYPES
        if t in INT_TYPES:
            return IntV(0, *INT_TYPES[t])
        if t == "bool":
            return False
        name = w.prog.impl_index.get((t.split("::")[-1], "Default", "default"))
        if name:
            return it.call_body(w.prog.bodies[name], args)
        raise Unsupported("Default for " + t)
    if key == ("IntoIterator", "into_iter"):
        v = args[0]
        if isinstance(v, ModelObj) and v.type_name == "Vec":
            return w.IterV(v.items)
        if isinstance(v, Ref):
            inner = deref(it, v)
            if isinstance(inner, ModelObj) and inner.type_name == "Vec":
                return w.IterV([Ref(Cell(x, "elem"), (), False) for x in inner.items])
        if isinstance(v, Agg) and v.kind == "array":
            return w.IterV(v.fields)
        return v
    if key == ("Iterator", "next") and hasattr(deref1(it, args[0]), "iter_next"):
        return deref1(it, args[0]).iter_next(it)
    if key == ("Iterator", "next"):
        r = deref1(it, args[0])
        if isinstance(r, ModelObj) and r.type_name == "Iter":
            if r.i < len(r.items):
                r.i += 1
                return mk_some(r.items[r.i - 1])
            return mk_none()
        if isinstance(r, Agg) and r.name == "Range":
            a, b = r.fields
            if it.truth(it.binop("Lt", a, b)):
                r.fields[0] = it.binop("Add", a, IntV(1, a.bits, a.signed))
                return mk_some(a)
            return mk_none()
        raise Unsupported("Iterator::next on %r" % (r,))
    if trait == "Iterator" and meth in ITER_ADAPTORS:
        r = deref1(it, args[0]) if isinstance(args[0], Ref) else args[0]
        if isinstance(r, ModelObj) and r.type_name == "Iter":
            return iter_adaptor(w, it, meth, r, args[1:], callee)
    if key == ("FutureExt", "catch_unwind"):
        return w.mk_catch_unwind(args[0])
    if key == ("Ord", "min"):
        a, b = args
        return a if it.truth(it.binop("Le", a, b)) else b
    if key == ("Ord", "max"):
        a, b = args
        return a if it.truth(it.binop("Ge", a, b)) else b
    if key in (("PartialEq", "eq"), ("PartialEq", "ne")):
        e = eq_value(w, it, args[0], args[1])
        if meth == "ne":
            e = (not e) if isinstance(e, bool) else z3.Not(e)
        return e
    if key in (("FnOnce", "call_once"), ("FnMut", "call_mut"), ("Fn", "call")):
        a = args[1]
        return it.call_closure(args[0], list(a.fields) if isinstance(a, Agg) else [])
    if trait == "Debug" or trait == "Display":
        return mk_ok(UNIT)
    if key == ("Any", "type_id"):
        return Opaque("TypeId", recv_type(it, args[0]))
    # ---- dyn / generic dispatch to crate impls by the runtime type of the receiver
    rt = recv_type(it, args[0]) if args else None
    name = None
    if rt is not None:
        name = pick_impl(w, it, trait, meth, args, rt)
    if name is None:
        st = re.sub(r"^dyn\s+", "", selfty).split("<")[0].split("::")[-1].strip()
        name = pick_impl(w, it, trait, meth, args, st)
    if name is None:
        name = pick_blanket(w, trait, meth)
    if name is None:
        name = w.prog.impl_index.get(("<default>", trait, meth))
    if name is not None:
        return crate_call(w, it, name, args, callee)
    raise Unsupported("trait call `%s` (receiver %r)" % (callee[:140], rt))


ITER_ADAPTORS = ("filter", "map", "count", "any", "all", "find", "position", "for_each", "enumerate", "collect", "rev", "take",
                 "skip", "cloned", "copied", "fold", "last", "nth", "sum", "filter_map", "find_map", "chain", "peekable", "by_ref")


def iter_adaptor(w, it, meth, r, rest, callee):
    """finite model iterators are adapted eagerly (closures are called in element order)"""
    items = r.items[r.i:]
    clo = Ref(Cell(rest[0], "iter-closure"), (), True) if rest and not isinstance(rest[0], (IntV, Ref)) else (rest[0] if rest else None)

    def call(*a):
        return it.call_closure(clo, list(a))

    def asref(x):
        return Ref(Cell(x, "iter-elem"), (), False)
    if meth == "by_ref":
        return Ref(Cell(r, "iter"), (), True)
    if meth == "peekable":
        return r
    if meth == "filter":
        return w.IterV([x for x in items if it.truth(call(asref(x)))])
    if meth == "map":
        return w.IterV([call(x) for x in items])
    if meth == "filter_map":
        out = [call(x) for x in items]
        return w.IterV([o.fields[0] for o in out if o.variant == "Some"])
    if meth == "count":
        r.i = len(r.items)
        return IntV(len(items), 64)
    if meth == "last":
        r.i = len(r.items)
        return mk_some(items[-1]) if items else mk_none()
    if meth == "nth":
        n = rest[0].v
        r.i = min(len(r.items), r.i + n + 1)
        return mk_some(items[n]) if n < len(items) else mk_none()
    if meth in ("any", "all"):
        for k, x in enumerate(items):
            t = it.truth(call(x))
            if t == (meth == "any"):
                r.i += k + 1
                return meth == "any"
        r.i = len(r.items)
        return meth == "all"
    if meth in ("find", "position", "find_map"):
        for k, x in enumerate(items):
            o = call(asref(x)) if meth == "find" else call(x)
            if meth == "find_map":
                if o.variant == "Some":
                    r.i += k + 1
                    return o
                continue
            if it.truth(o):
                r.i += k + 1
                return mk_some(x if meth == "find" else IntV(k, 64))
        r.i = len(r.items)
        return mk_none()
    if meth == "for_each":
        for x in items:
            call(x)
        return UNIT
    if meth == "enumerate":
        return w.IterV([Agg("tuple", "", [IntV(k, 64), x]) for k, x in enumerate(items)])
    if meth == "collect":
        if "Vec" not in callee.split("collect", 1)[-1]:
            raise Unsupported("Iterator::collect into " + callee[-80:])
        return w.VecV(list(items))
    if meth == "rev":
        return w.IterV(list(reversed(items)))
    if meth == "take":
        return w.IterV(items[:rest[0].v])
    if meth == "skip":
        return w.IterV(items[rest[0].v:])
    if meth == "chain":
        o = rest[0]
        return w.IterV(items + (o.items[o.i:] if isinstance(o, ModelObj) else []))
    if meth in ("cloned", "copied"):
        return w.IterV([clone_value(w, it, deref(it, x)) if isinstance(x, Ref) else x for x in items])
    if meth == "fold":
        acc = rest[0]
        f = Ref(Cell(rest[1], "fold-closure"), (), True)
        for x in items:
            acc = it.call_closure(f, [acc, x])
        return acc
    if meth == "sum":
        acc = None
        for x in items:
            x = deref(it, x) if isinstance(x, Ref) else x
            acc = x if acc is None else it.binop("Add", acc, x)
        return acc if acc is not None else IntV(0, 64)
    raise Unsupported("Iterator::" + meth)


def is_type_param(t):
    t = t.strip()
    return bool(re.match(r"^[A-Z]\w{0,1}$", t)) or t == "Self" or t == "ScriptActor"


def pick_blanket(w, trait, meth):
    for (s, t, m), name in w.prog.impl_index.items():
        if t == trait and m == meth and s is not None and re.match(r"^[A-Z]$", s):
            return name
    return None


def pick_impl(w, it, trait, meth, args, rt=None):
    """choose among the crate's impls of trait::meth the one whose first parameter matches the
    runtime argument (by-value vs by-reference, type head)"""
    cands = []
    for (s, t, m), names in w.prog.impl_all.items():
        if t == trait and m == meth:
            for name in names:
                cands.append((s, name))
    if not cands:
        return None
    a0 = args[0] if args else None
    isref = isinstance(a0, Ref)
    v0 = deref(it, a0) if a0 is not None else None
    tn = v0.name if isinstance(v0, Agg) else (v0.type_name if isinstance(v0, ModelObj) else None)
    best = None
    for s, name in cands:
        b = w.prog.bodies[name]
        if not b.arg_types:
            continue
        p0 = b.arg_types[0].strip()
        pref = p0.startswith("&")
        from .interp import type_head
        ph = type_head(p0)
        if rt is not None and s == rt and (tn is None or ph == tn or ph in ("Self", "T")) and pref == isref:
            return name
        if tn is not None and ph == tn and pref == isref:
            best = best or name
    if best:
        return best
    if rt is not None:
        for s, name in cands:
            if s == rt:
                return name
    return None


# =====================================================================================
# scripted actor hooks
# =====================================================================================
def concrete_impl(w, it, trait, meth, tyname, args, msgname=None, same_impl_as=None):
    names = w.prog.impl_all.get((tyname, trait, meth), [])
    if same_impl_as is not None:
        tok = re.search(r"\{impl#\d+\}", same_impl_as)
        names = [n for n in names if tok and tok.group(0) + "-" in n + "-"]
    if msgname is not None:
        from .interp import type_head
        names = [n for n in names if len(w.prog.bodies[n].arg_types) > 1 and type_head(w.prog.bodies[n].arg_types[1]) == msgname]
    if len(names) == 1:
        return names[0]
    return None


def actor_hook(w, it, meth, args):
    if meth == "on_start" and not isinstance(args[0], W.Script):
        # a concrete user actor (macro corpus): the crate's own impl (e.g. generated by derive(Actor))
        a0 = args[0]
        tn = a0.name if isinstance(a0, Agg) else None
        name = concrete_impl(w, it, "Actor", "on_start", tn, args)
        if name is None:
            raise Unsupported("no Actor::on_start impl for %r" % (tn,))
        return it.call_body(w.prog.bodies[name], args)
    if meth in ("on_run", "on_stop"):
        av = deref(it, args[0])
        if isinstance(av, Agg) and not isinstance(av.extra, W.Script):
            name = concrete_impl(w, it, "Actor", meth, av.name, args) or w.prog.impl_index.get(("<default>", "Actor", meth))
            if name is None:
                raise Unsupported("no Actor::%s for %s" % (meth, av.name))
            return it.call_body(w.prog.bodies[name], args)
    if meth == "on_start":
        script = args[0]
        if not isinstance(script, W.Script):
            raise Unsupported("on_start args are not a Script")
        refv = deref(it, args[1])
        ident = refv.fields[0]
        a = w.actors[script.name]
        outcome, yields = script.on_start

        def finish(it, script=script, outcome=outcome):
            if outcome == "panic":
                raise RustPanic("scripted panic in on_start of " + script.name)
            if outcome == "err":
                return mk_err(IntV(script.err_tag + 1, 8))
            return mk_ok(Agg("struct", "ScriptActor", [IntV(1, 8)], None, script))
        return W.HookFuture(w, "on_start", script.name, yields, finish, script.on_start_actions)
    actor_ref = args[0]
    actor = deref(it, actor_ref)
    script = actor.extra
    if meth == "on_run":
        # the k-th *executed* on_run body (select! creates an on_run future in every iteration and
        # drops it unpolled when an earlier branch is ready: those do not count)
        k = script.__dict__.setdefault("_runs_done", 0)
        outcome, yields = script.on_run[k] if k < len(script.on_run) else script.on_run_default

        def finish(it, outcome=outcome, script=script, actor_ref=actor_ref):
            script._runs_done = script.__dict__.get("_runs_done", 0) + 1
            a = deref(it, actor_ref)
            a.fields[0] = it.binop("Add", a.fields[0], IntV(1, 8))
            if outcome == "panic":
                raise RustPanic("scripted panic in on_run of " + script.name)
            if outcome == "err":
                return mk_err(IntV(script.err_tag + 2, 8))
            return mk_ok(outcome == "true")
        return W.HookFuture(w, "on_run", script.name, yields, finish, script.on_run_actions if k == 0 else [], {"k": k})
    if meth == "on_stop":
        killed = args[2]
        outcome, yields = script.on_stop

        def finish(it, outcome=outcome, script=script, actor_ref=actor_ref):
            a = deref(it, actor_ref)
            a.fields[0] = it.binop("Add", a.fields[0], IntV(1, 8))
            if outcome == "panic":
                raise RustPanic("scripted panic in on_stop of " + script.name)
            if outcome == "err":
                return mk_err(IntV(script.err_tag + 3, 8))
            return mk_ok(UNIT)
        return W.HookFuture(w, "on_stop", script.name, yields, finish, script.on_stop_actions, {"killed": w.describe(killed)})
    raise Unsupported("actor hook " + meth)


def reply_of(it, idv):
    return it.binop("BitXor", idv, IntV(0x5A, 8))


def message_hook(w, it, meth, args):
    if meth == "on_tell_result":
        refv0 = deref(it, args[1])
        aid = w.describe(refv0.fields[0].fields[0])
        disp = getattr(w, "concrete_dispatch", {}).get(aid)
        if disp is not None:
            tyname, msgname, hname = disp
            name = concrete_impl(w, it, "Message", "on_tell_result", tyname, args, same_impl_as=hname) or w.prog.impl_index.get(("<default>", "Message", "on_tell_result"))
            it.ex.event(ev="on_tell_result_concrete", actor_id=aid, generated=name is not None and "{impl#" in name)
            return it.call_body(w.prog.bodies[name], args)
    if meth == "handle":
        av = deref(it, args[0])
        if isinstance(av, Agg) and not isinstance(av.extra, W.Script):
            msg = args[1]
            name = concrete_impl(w, it, "Message", "handle", av.name, args, msgname=msg.name if isinstance(msg, Agg) else None)
            if name is None:
                raise Unsupported("no Message<%s> impl for %s" % (getattr(msg, "name", "?"), av.name))
            refv0 = deref(it, args[2])
            if not hasattr(w, "concrete_dispatch"):
                w.concrete_dispatch = {}
            w.concrete_dispatch[w.describe(refv0.fields[0].fields[0])] = (av.name, msg.name, name)
            it.ex.event(ev="concrete_handle", actor=av.name, msg=msg.name)
            return it.call_body(w.prog.bodies[name], args)
    if meth == "on_tell_result":
        res = deref(it, args[0])
        refv = deref(it, args[1])
        it.ex.event(ev="on_tell_result", result=w.describe(res), actor_id=w.describe(refv.fields[0].fields[0]))
        return UNIT
    actor_ref, msg = args[0], args[1]
    actor = deref(it, actor_ref)
    script = actor.extra
    idv = msg.fields[0]
    cid = idv.v if not idv.is_sym() else None
    yields = script.handler_yields.get(cid, script.handler_yields.get("*", 0))
    kind = msg.name

    def finish(it, script=script, idv=idv, cid=cid, actor_ref=actor_ref, kind=kind):
        a = deref(it, actor_ref)
        a.fields[0] = it.binop("Add", a.fields[0], IntV(1, 8))
        if cid in script.handler_panics or "*" in script.handler_panics:
            raise RustPanic("scripted panic in handler of " + script.name)
        if kind == "Spawning":
            # the handler "spawns" a task (played by the scenario's environment) and returns its JoinHandle
            t = W.Task(w, "spawned-by-%s" % script.name, None)
            t.state = "running"
            if not hasattr(w, "spawned_by_handlers"):
                w.spawned_by_handlers = []
            w.spawned_by_handlers.append(t)
            it.ex.event(ev="handler_spawned", task=t.id, msg=w.describe(idv))
            return W.JoinHandle(t)
        return reply_of(it, idv)
    return W.HookFuture(w, "handler", script.name, yields, finish, script.handler_actions.get(cid, script.handler_actions.get("*", [])),
                        {"msg": w.describe(idv), "kind": kind})


# =====================================================================================
# builtins
# =====================================================================================
def install(w):
    B = w.builtins

    def reg(*names):
        def deco(f):
            for nm in names:
                B[nm] = f
            return f
        return deco

    # ---------------- core / alloc
    @reg("Box::new")
    def box_new(w, it, a, c):
        return BoxV(Cell(a[0], "box"), "Box")

    @reg("Box::pin")
    def box_pin(w, it, a, c):
        return Agg("struct", "Pin", [BoxV(Cell(a[0], "box"), "Box")])

    @reg("futures::__private::async_await::poll", "async_await::poll", "futures_util::async_await::poll::poll", "futures::future::poll_immediate", "futures::poll")
    def futures_poll_once(w, it, a, c):
        # futures::poll!(fut): a future that polls `fut` exactly once and yields the Poll
        inner = a[0]

        class PollOnce(ModelObj):
            type_name = "PollOnce"

            def poll(self_, it_, cx_):
                return mk_ready(w.poll_future(it_, inner, cx_))
        return PollOnce()

    @reg("Arc::new")
    def arc_new(w, it, a, c):
        return BoxV(Cell(a[0], "arc"), "Arc", [1])

    @reg("Pin::new_unchecked", "Pin::new")
    def pin_new(w, it, a, c):
        return Agg("struct", "Pin", [a[0]])

    @reg("Pin::get_mut", "Pin::get_unchecked_mut", "Pin::into_inner", "Pin::get_ref")
    def pin_get(w, it, a, c):
        v = a[0]
        return v.fields[0] if isinstance(v, Agg) and v.name == "Pin" else v

    @reg("Pin::as_mut")
    def pin_as_mut(w, it, a, c):
        p = deref1(it, a[0])
        inner = p.fields[0] if isinstance(p, Agg) and p.name == "Pin" else p
        if isinstance(inner, BoxV):
            return Agg("struct", "Pin", [Ref(inner.cell, (), True)])
        return Agg("struct", "Pin", [inner])

    @reg("std::future::get_context", "future::get_context")
    def get_context(w, it, a, c):
        return Ref(Cell(a[0], "cx"), (), True)

    @reg("std::future::poll_fn", "future::poll_fn")
    def poll_fn(w, it, a, c):
        return W.PollFn(a[0])

    @reg("std::panic::catch_unwind", "panic::catch_unwind", "catch_unwind")
    def panic_catch_unwind(w, it, a, c):
        f = a[0]
        if isinstance(f, Agg) and f.name == "AssertUnwindSafe":
            f = f.fields[0]
        try:
            return mk_ok(it.call_closure(f, []))
        except RustPanic as p:
            w.unwinding_now = False
            it.ex.event(ev="panic_caught", msg=p.msg[:80])
            return mk_err(BoxV(Cell(Opaque("PanicPayload", p.msg), "panic payload"), "Box"))

    @reg("FutureExt::now_or_never", "now_or_never")
    def now_or_never(w, it, a, c):
        fut = a[0]
        r = w.poll_future(it, fut, Opaque("Context", "now_or_never"))
        if r.variant == "Ready":
            if not (isinstance(fut, Agg) and fut.kind == "coroutine"):
                it.drop_value(fut)
            return mk_some(r.fields[0])
        it.drop_value(fut)
        return mk_none()

    @reg("tokio::runtime::Handle::spawn", "Handle::spawn")
    def rt_handle_spawn(w, it, a, c):
        t = W.Task(w, "spawned%d" % len(w.tasks), a[1])
        w.last_spawn = t
        it.ex.event(ev="spawn", task=t.id)
        return W.JoinHandle(t)

    @reg("std::panic::resume_unwind", "panic::resume_unwind", "resume_unwind")
    def panic_resume_unwind(w, it, a, c):
        pl = a[0]
        inner = pl.cell.value if isinstance(pl, BoxV) else pl
        msg = inner.data if isinstance(inner, Opaque) and inner.what == "PanicPayload" else "resumed panic"
        raise RustPanic(str(msg))

    @reg("tokio::runtime::Handle::runtime_flavor", "Handle::runtime_flavor")
    def rt_flavor(w, it, a, c):
        # which kind of runtime the caller is on is an input: both are explored
        k = it.ex.choose(2, "runtime-flavor")
        return mk_enum("RuntimeFlavor", ["CurrentThread", "MultiThread"][k])

    @reg("std::future::ready", "future::ready")
    def future_ready(w, it, a, c):
        return W.ReadyFut(a[0])

    @reg("std::future::pending", "future::pending")
    def future_pending(w, it, a, c):
        return W.ReadyFut(None, never=True)

    @reg("std::mem::drop", "mem::drop")
    def mem_drop(w, it, a, c):
        it.drop_value(a[0])
        return UNIT

    @reg("std::mem::forget", "mem::forget")
    def mem_forget(w, it, a, c):
        return UNIT

    @reg("std::mem::replace", "mem::replace")
    def mem_replace(w, it, a, c):
        r = a[0]
        old = it.load(r.cell, r.path)
        it.store(r.cell, r.path, a[1])
        return old

    @reg("std::mem::swap", "mem::swap")
    def mem_swap(w, it, a, c):
        x, y = a
        vx, vy = it.load(x.cell, x.path), it.load(y.cell, y.path)
        it.store(x.cell, x.path, vy)
        it.store(y.cell, y.path, vx)
        return UNIT

    @reg("std::any::type_name", "any::type_name")
    def type_name(w, it, a, c):
        ta = type_args(c)
        return Ref(Cell(ta[0] if ta else "?", "type_name"), (), False)

    @reg("std::rt::panic_fmt", "rt::panic_fmt", "core::panicking::panic_fmt", "panicking::panic_fmt", "core::panicking::panic", "panicking::panic",
         "std::rt::begin_panic", "core::panicking::panic_explicit", "panicking::panic_display", "core::panicking::assert_failed", "panicking::assert_failed",
         "core::panicking::unreachable_display", "panicking::unreachable_display")
    def panic_fmt(w, it, a, c):
        a0 = deref(it, a[0]) if a else None
        msg = a0 if isinstance(a0, str) else (a0.data if isinstance(a0, Opaque) and isinstance(a0.data, str) else "panic")
        it.ex.event(ev="panic", msg=str(msg)[:100], task=w.cur_task.name if w.cur_task else None)
        raise RustPanic(str(msg))

    @reg("Arguments::from_str", "Arguments::from_str_nonconst", "Arguments::new_const")
    def args_from_str(w, it, a, c):
        v = deref(it, a[0])
        if isinstance(v, Agg) and v.fields:
            v = deref(it, v.fields[0])
        return Opaque("Arguments", v if isinstance(v, str) else "fmt")

    @reg("Arguments::new", "Arguments::new_v1", "Arguments::new_v1_formatted")
    def args_new(w, it, a, c):
        v = deref(it, a[0])
        txt = "fmt"
        if isinstance(v, bytes):
            txt = "".join(chr(b) for b in v if 32 <= b < 127)
        elif isinstance(v, str):
            txt = re.sub(r"\\x[0-9a-fA-F]{2}|\\n|\\t", " ", v)
        return Opaque("Arguments", txt)

    @reg("Argument::new_display", "Argument::new_debug", "Argument::new_lower_hex", "Argument::new_upper_hex")
    def arg_new(w, it, a, c):
        return Opaque("Argument", a[0])

    @reg("format", "fmt::format", "alloc::fmt::format", "std::fmt::format")
    def fmt_format(w, it, a, c):
        return a[0].data if isinstance(a[0], Opaque) and isinstance(a[0].data, str) else "<formatted>"

    @reg("must_use", "hint::must_use")
    def must_use(w, it, a, c):
        return a[0]

    @reg("discriminant_value", "intrinsics::discriminant_value")
    def discr(w, it, a, c):
        return it.discriminant(deref(it, a[0]))

    def int_method(opname, mode):
        def f(w, it, a, c):
            x, y = a[0], a[1]
            if mode == "wrapping":
                return it.binop(opname, x, y)
            r = it.binop(opname + "WithOverflow", x, y)
            if mode == "checked":
                return mk_none() if it.truth(r.fields[1]) else mk_some(r.fields[0])
            if mode == "overflowing":
                return r
            raise Unsupported(mode)
        return f
    for _op, _nm in (("Add", "add"), ("Sub", "sub"), ("Mul", "mul")):
        B["num::wrapping_" + _nm] = int_method(_op, "wrapping")
        B["num::checked_" + _nm] = int_method(_op, "checked")
        B["num::overflowing_" + _nm] = int_method(_op, "overflowing")

    @reg("num::saturating_sub")
    def sat_sub(w, it, a, c):
        x, y = a
        if it.truth(it.binop("Lt", x, y)):
            return IntV(0, x.bits, x.signed)
        return it.binop("Sub", x, y)

    @reg("num::saturating_mul", "core::num::saturating_mul")
    def sat_mul(w, it, a, c):
        x, y = a
        r = it.binop("MulWithOverflow", x, y)
        if it.truth(r.fields[1]):
            return IntV((1 << x.bits) - 1, x.bits, x.signed)
        return r.fields[0]

    @reg("Duration::subsec_nanos")
    def dur_subsec_nanos(w, it, a, c):
        d = deref(it, a[0]).fields[0]
        return IntV(d % 1000000000 if isinstance(d, int) else z3.Extract(31, 0, z3.URem(d, z3.BitVecVal(1000000000, 64))), 32)

    @reg("Duration::subsec_millis")
    def dur_subsec_millis(w, it, a, c):
        d = deref(it, a[0]).fields[0]
        return IntV((d % 1000000000) // 1000000 if isinstance(d, int) else z3.Extract(31, 0, z3.UDiv(z3.URem(d, z3.BitVecVal(1000000000, 64)), z3.BitVecVal(1000000, 64))), 32)

    @reg("Duration::subsec_micros")
    def dur_subsec_micros(w, it, a, c):
        d = deref(it, a[0]).fields[0]
        return IntV((d % 1000000000) // 1000 if isinstance(d, int) else z3.Extract(31, 0, z3.UDiv(z3.URem(d, z3.BitVecVal(1000000000, 64)), z3.BitVecVal(1000, 64))), 32)

    @reg("String::new")
    def string_new(w, it, a, c):
        return ""

    @reg("core::num::saturating_add", "num::saturating_add")
    def sat_add(w, it, a, c):
        x, y = a
        r = it.binop("AddWithOverflow", x, y)
        if it.truth(r.fields[1]):
            return IntV((1 << x.bits) - 1, x.bits, x.signed)
        return r.fields[0]

    # ---------------- Option / Result
    @reg("Poll::is_pending")
    def poll_is_pending(w, it, a, c):
        return deref(it, a[0]).variant == "Pending"

    @reg("Poll::is_ready")
    def poll_is_ready(w, it, a, c):
        return deref(it, a[0]).variant == "Ready"

    @reg("Poll::map")
    def poll_map(w, it, a, c):
        p_ = a[0]
        if p_.variant == "Ready":
            return mk_ready(it.call_closure(a[1], [p_.fields[0]]))
        it.drop_value(a[1])
        return p_

    @reg("Option::is_some")
    def opt_is_some(w, it, a, c):
        return deref(it, a[0]).variant == "Some"

    @reg("Option::is_none")
    def opt_is_none(w, it, a, c):
        return deref(it, a[0]).variant == "None"

    @reg("Option::unwrap_or")
    def opt_unwrap_or(w, it, a, c):
        return a[0].fields[0] if a[0].variant == "Some" else a[1]

    @reg("Option::unwrap", "Option::expect")
    def opt_unwrap(w, it, a, c):
        if a[0].variant == "Some":
            return a[0].fields[0]
        raise RustPanic("called `Option::unwrap()` on a `None` value")

    @reg("Option::copied", "Option::cloned")
    def opt_copied(w, it, a, c):
        if a[0].variant == "Some":
            return mk_some(it.copy_val(deref(it, a[0].fields[0])))
        return mk_none()

    @reg("Option::as_ref", "Option::as_mut")
    def opt_as_ref(w, it, a, c):
        r = a[0]
        v = it.load(r.cell, r.path)
        if v.variant == "Some":
            return mk_some(Ref(r.cell, tuple(r.path) + (("as", "Some"), 0), c.endswith("as_mut")))
        return mk_none()

    @reg("Option::take")
    def opt_take(w, it, a, c):
        r = a[0]
        v = it.load(r.cell, r.path)
        it.store(r.cell, r.path, mk_none())
        return v

    @reg("Option::map")
    def opt_map(w, it, a, c):
        if a[0].variant == "Some":
            return mk_some(it.call_closure(a[1], [a[0].fields[0]]))
        it.drop_value(a[1])
        return mk_none()

    @reg("Option::ok_or")
    def opt_ok_or(w, it, a, c):
        if a[0].variant == "Some":
            it.drop_value(a[1])
            return mk_ok(a[0].fields[0])
        return mk_err(a[1])

    @reg("Result::is_err")
    def res_is_err(w, it, a, c):
        return deref(it, a[0]).variant == "Err"

    @reg("Result::is_ok")
    def res_is_ok(w, it, a, c):
        return deref(it, a[0]).variant == "Ok"

    @reg("Result::ok")
    def res_ok(w, it, a, c):
        if a[0].variant == "Ok":
            return mk_some(a[0].fields[0])
        it.drop_value(a[0].fields[0])
        return mk_none()

    @reg("Result::err")
    def res_err(w, it, a, c):
        if a[0].variant == "Err":
            return mk_some(a[0].fields[0])
        it.drop_value(a[0].fields[0])
        return mk_none()

    @reg("Result::map_err")
    def res_map_err(w, it, a, c):
        if a[0].variant == "Err":
            return mk_err(it.call_closure(a[1], [a[0].fields[0]]))
        it.drop_value(a[1])
        return a[0]

    @reg("Result::map")
    def res_map(w, it, a, c):
        if a[0].variant == "Ok":
            return mk_ok(it.call_closure(a[1], [a[0].fields[0]]))
        it.drop_value(a[1])
        return a[0]

    @reg("Result::unwrap", "Result::expect")
    def res_unwrap(w, it, a, c):
        if a[0].variant == "Ok":
            return a[0].fields[0]
        raise RustPanic("called `Result::unwrap()` on an `Err` value")

    @reg("Result::unwrap_or")
    def res_unwrap_or(w, it, a, c):
        if a[0].variant == "Ok":
            it.drop_value(a[1])
            return a[0].fields[0]
        it.drop_value(a[0].fields[0])
        return a[1]

    @reg("Result::unwrap_or_default")
    def res_unwrap_or_default(w, it, a, c):
        if a[0].variant == "Ok":
            return a[0].fields[0]
        raise Unsupported("unwrap_or_default")

    @reg("Option::filter")
    def opt_filter(w, it, a, c):
        if a[0].variant == "Some":
            keep = it.call_closure(a[1], [Ref(Cell(a[0].fields[0], "filter-arg"), (), False)])
            if it.truth(keep):
                return a[0]
            it.drop_value(a[0].fields[0])
            return mk_none()
        return mk_none()

    @reg("Option::and_then")
    def opt_and_then(w, it, a, c):
        if a[0].variant == "Some":
            return it.call_closure(a[1], [a[0].fields[0]])
        it.drop_value(a[1])
        return mk_none()

    @reg("Option::unwrap_or_else")
    def opt_unwrap_or_else(w, it, a, c):
        if a[0].variant == "Some":
            it.drop_value(a[1])
            return a[0].fields[0]
        return it.call_closure(a[1], [])

    @reg("Option::unwrap_or_default")
    def opt_unwrap_or_default(w, it, a, c):
        if a[0].variant == "Some":
            return a[0].fields[0]
        raise Unsupported("Option::unwrap_or_default")

    @reg("Option::map_or")
    def opt_map_or(w, it, a, c):
        if a[0].variant == "Some":
            it.drop_value(a[1])
            return it.call_closure(a[2], [a[0].fields[0]])
        it.drop_value(a[2])
        return a[1]

    @reg("Option::is_some_and")
    def opt_is_some_and(w, it, a, c):
        if a[0].variant == "Some":
            return it.call_closure(a[1], [a[0].fields[0]])
        it.drop_value(a[1])
        return False

    @reg("Option::ok_or_else")
    def opt_ok_or_else(w, it, a, c):
        if a[0].variant == "Some":
            it.drop_value(a[1])
            return mk_ok(a[0].fields[0])
        return mk_err(it.call_closure(a[1], []))

    @reg("Option::replace")
    def opt_replace(w, it, a, c):
        r = a[0]
        old = it.load(r.cell, r.path)
        it.store(r.cell, r.path, mk_some(a[1]))
        return old

    @reg("Option::insert", "Option::get_or_insert")
    def opt_insert(w, it, a, c):
        r = a[0]
        old = it.load(r.cell, r.path)
        if c.endswith("get_or_insert") and old.variant == "Some":
            it.drop_value(a[1])
        else:
            it.drop_value(old)
            it.store(r.cell, r.path, mk_some(a[1]))
        return Ref(r.cell, tuple(r.path) + (("as", "Some"), 0), True)

    @reg("Option::get_or_insert_with")
    def opt_get_or_insert_with(w, it, a, c):
        r = a[0]
        old = it.load(r.cell, r.path)
        if old.variant == "Some":
            it.drop_value(a[1])
        else:
            it.store(r.cell, r.path, mk_some(it.call_closure(a[1], [])))
        return Ref(r.cell, tuple(r.path) + (("as", "Some"), 0), True)

    @reg("Result::and_then")
    def res_and_then(w, it, a, c):
        if a[0].variant == "Ok":
            return it.call_closure(a[1], [a[0].fields[0]])
        it.drop_value(a[1])
        return a[0]

    @reg("Result::or_else")
    def res_or_else(w, it, a, c):
        if a[0].variant == "Err":
            return it.call_closure(a[1], [a[0].fields[0]])
        it.drop_value(a[1])
        return a[0]

    @reg("Result::unwrap_or_else")
    def res_unwrap_or_else(w, it, a, c):
        if a[0].variant == "Ok":
            it.drop_value(a[1])
            return a[0].fields[0]
        return it.call_closure(a[1], [a[0].fields[0]])

    @reg("Result::is_ok_and")
    def res_is_ok_and(w, it, a, c):
        if a[0].variant == "Ok":
            return it.call_closure(a[1], [a[0].fields[0]])
        it.drop_value(a[1])
        it.drop_value(a[0].fields[0])
        return False

    @reg("Result::is_err_and")
    def res_is_err_and(w, it, a, c):
        if a[0].variant == "Err":
            return it.call_closure(a[1], [a[0].fields[0]])
        it.drop_value(a[1])
        it.drop_value(a[0].fields[0])
        return False

    @reg("Result::as_ref", "Result::as_mut")
    def res_as_ref(w, it, a, c):
        r = a[0]
        v = it.load(r.cell, r.path)
        return mk_enum("Result", v.variant, Ref(r.cell, tuple(r.path) + (("as", v.variant), 0), c.endswith("as_mut")))

    @reg("Result::unwrap_err", "Result::expect_err")
    def res_unwrap_err(w, it, a, c):
        if a[0].variant == "Err":
            return a[0].fields[0]
        raise RustPanic("called `Result::unwrap_err()` on an `Ok` value")

    @reg("std::mem::take", "mem::take")
    def mem_take(w, it, a, c):
        r = a[0]
        old = it.load(r.cell, r.path)
        if isinstance(old, Agg) and old.name == "Option":
            it.store(r.cell, r.path, mk_none())
        elif isinstance(old, bool):
            it.store(r.cell, r.path, False)
        elif isinstance(old, IntV):
            it.store(r.cell, r.path, IntV(0, old.bits, old.signed))
        else:
            raise Unsupported("mem::take of %r" % (old,))
        return old

    @reg("std::thread::panicking", "thread::panicking", "panicking")
    def thread_panicking(w, it, a, c):
        return bool(w.unwinding_now)

    @reg("std::cmp::min", "cmp::min")
    def cmp_min(w, it, a, c):
        return a[0] if it.truth(it.binop("Le", a[0], a[1])) else a[1]

    @reg("std::cmp::max", "cmp::max")
    def cmp_max(w, it, a, c):
        return a[0] if it.truth(it.binop("Ge", a[0], a[1])) else a[1]

    @reg("Arc::strong_count")
    def arc_strong_count(w, it, a, c):
        return IntV(deref1(it, a[0]).rc[0], 64)

    @reg("Arc::ptr_eq")
    def arc_ptr_eq(w, it, a, c):
        return deref1(it, a[0]).cell is deref1(it, a[1]).cell

    @reg("Atomic::swap")
    def atomic_swap(w, it, a, c):
        at = deref(it, a[0])
        old = at.fields[0]
        at.fields[0] = a[1]
        return old

    @reg("Atomic::compare_exchange", "Atomic::compare_exchange_weak")
    def atomic_cas(w, it, a, c):
        at = deref(it, a[0])
        old = at.fields[0]
        eq = eq_value(w, it, old, a[1])
        if it.truth(eq) if not isinstance(eq, bool) else eq:
            at.fields[0] = a[2]
            return mk_ok(old)
        return mk_err(old)

    @reg("Atomic::fetch_or")
    def atomic_fetch_or(w, it, a, c):
        at = deref(it, a[0])
        old = at.fields[0]
        at.fields[0] = it.binop("BitOr", old, a[1])
        return old

    @reg("Atomic::fetch_and")
    def atomic_fetch_and(w, it, a, c):
        at = deref(it, a[0])
        old = at.fields[0]
        at.fields[0] = it.binop("BitAnd", old, a[1])
        return old

    # ---------------- Box<dyn Any>
    @reg("Box::downcast", "boxed::convert::downcast", "convert::downcast", "downcast")
    def box_downcast(w, it, a, c):
        # the reply was boxed by handle_message from the handler's own return value; the model
        # keeps runtime values typed by construction, so the downcast succeeds iff the boxed
        # value is what a scripted handler returns (an 8-bit int or a JoinHandle)
        # runtime values are untyped here: the boxed reply is whatever handle_message boxed, so the
        # downcast to the handler's own Reply type succeeds (type confusion is outside this engine)
        return mk_ok(a[0])

    # ---------------- atomics
    @reg("Atomic::new", "AtomicU64::new", "AtomicUsize::new", "AtomicBool::new")
    def atomic_new(w, it, a, c):
        return Agg("struct", "Atomic", [a[0]])

    @reg("Atomic::load", "AtomicU64::load")
    def atomic_load(w, it, a, c):
        return deref(it, a[0]).fields[0]

    @reg("Atomic::store", "AtomicU64::store")
    def atomic_store(w, it, a, c):
        deref(it, a[0]).fields[0] = a[1]
        return UNIT

    @reg("Atomic::fetch_add", "AtomicU64::fetch_add")
    def atomic_fetch_add(w, it, a, c):
        at = deref(it, a[0])
        old = at.fields[0]
        at.fields[0] = it.binop("Add", old, a[1])
        return old

    @reg("Atomic::compare_exchange", "Atomic::compare_exchange_weak")
    def atomic_cas(w, it, a, c):
        at = deref(it, a[0])
        old = at.fields[0]
        if it.truth(it.binop("Eq", old, a[1])):
            at.fields[0] = a[2]
            return mk_ok(old)
        return mk_err(old)

    @reg("Atomic::swap")
    def atomic_swap(w, it, a, c):
        at = deref(it, a[0])
        old, at.fields[0] = at.fields[0], a[1]
        return old

    @reg("Atomic::fetch_sub")
    def atomic_fetch_sub(w, it, a, c):
        at = deref(it, a[0])
        old = at.fields[0]
        at.fields[0] = it.binop("Sub", old, a[1])
        return old

    @reg("Atomic::fetch_max")
    def atomic_fetch_max(w, it, a, c):
        at = deref(it, a[0])
        old = at.fields[0]
        if it.truth(it.binop("Gt", a[1], old)):
            at.fields[0] = a[1]
        return old

    @reg("Atomic::fetch_update")
    def atomic_fetch_update(w, it, a, c):
        at = deref(it, a[0])
        old = at.fields[0]
        r = it.call_closure(a[3], [old])
        if r.variant == "Some":
            at.fields[0] = r.fields[0]
            return mk_ok(old)
        return mk_err(old)

    # ---------------- OnceLock / Mutex / HashMap (deadlock-detection graph, default capacity)
    @reg("OnceLock::new")
    def once_new(w, it, a, c):
        return Agg("struct", "OnceLock", [mk_none()])

    @reg("OnceLock::get")
    def once_get(w, it, a, c):
        r = a[0]
        v = it.load(r.cell, r.path)
        if v.fields[0].variant == "Some":
            return mk_some(Ref(r.cell, tuple(r.path) + (0, ("as", "Some"), 0), False))
        return mk_none()

    @reg("OnceLock::set")
    def once_set(w, it, a, c):
        v = deref1(it, a[0])
        if v.fields[0].variant == "Some":
            return mk_err(a[1])
        v.fields[0] = mk_some(a[1])
        return mk_ok(UNIT)

    @reg("OnceLock::get_or_init")
    def once_get_or_init(w, it, a, c):
        r = a[0]
        v = it.load(r.cell, r.path)
        if v.fields[0].variant != "Some":
            v.fields[0] = mk_some(it.call_closure(a[1], []))
        else:
            it.drop_value(a[1])
        return Ref(r.cell, tuple(r.path) + (0, ("as", "Some"), 0), False)

    class MutexGuard(ModelObj):
        type_name = "MutexGuard"

        def __init__(self, mref):
            self.mref = mref
            self.panicking_at_lock = bool(w.unwinding_now)

        def deref(self, it):
            return Ref(self.mref.cell, tuple(self.mref.path) + (0,), True)

        def drop(self, it):
            m = it.load(self.mref.cell, self.mref.path)
            m.fields[1] = False
            # std::sync::poison: the flag is set iff the thread is panicking now and was NOT
            # already panicking when the lock was taken (a lock taken and released by a destructor
            # that runs during unwinding does not poison)
            if w.unwinding_now and not self.panicking_at_lock:
                m.fields[2] = True

    @reg("Mutex::new")
    def mutex_new(w, it, a, c):
        return Agg("struct", "Mutex", [a[0], False, False])   # data, locked, poisoned

    @reg("Mutex::lock")
    def mutex_lock(w, it, a, c):
        w.acc(("graph",), True)
        r = a[0]
        m = it.load(r.cell, r.path)
        if m.fields[1]:
            raise Unsupported("Mutex::lock on a locked mutex (would block forever in a single thread)")
        m.fields[1] = True
        g = MutexGuard(r)
        if m.fields[2]:
            return mk_err(Agg("struct", "PoisonError", [g]))
        return mk_ok(g)

    @reg("Mutex::try_lock")
    def mutex_try_lock(w, it, a, c):
        w.acc(("graph",), True)
        r = a[0]
        m = it.load(r.cell, r.path)
        if m.fields[1]:
            return mk_err(mk_enum("TryLockError", "WouldBlock"))
        m.fields[1] = True
        g = MutexGuard(r)
        if m.fields[2]:
            return mk_err(mk_enum("TryLockError", "Poisoned", Agg("struct", "PoisonError", [g])))
        return mk_ok(g)

    @reg("RwLock::new")
    def rwlock_new(w, it, a, c):
        return Agg("struct", "Mutex", [a[0], False, False])

    @reg("RwLock::read", "RwLock::write")
    def rwlock_lock(w, it, a, c):
        return mutex_lock(w, it, a, c)

    @reg("Mutex::is_poisoned", "RwLock::is_poisoned")
    def mutex_is_poisoned(w, it, a, c):
        return bool(it.load(a[0].cell, a[0].path).fields[2])

    @reg("Mutex::clear_poison", "RwLock::clear_poison")
    def mutex_clear_poison(w, it, a, c):
        it.load(a[0].cell, a[0].path).fields[2] = False
        return UNIT

    @reg("PoisonError::into_inner")
    def poison_into_inner(w, it, a, c):
        return a[0].fields[0]

    class HMap(ModelObj):
        """HashMap<u64, V> with concrete keys"""
        type_name = "HashMap"

        def __init__(self):
            self.d = {}

    def key_of(it, k):
        k = deref(it, k)
        if isinstance(k, IntV) and not k.is_sym():
            return k.v
        raise Unsupported("symbolic HashMap key")

    @reg("HashMap::new")
    def hm_new(w, it, a, c):
        return HMap()
    w.HMap = HMap

    @reg("HashMap::len")
    def hm_len(w, it, a, c):
        m = deref(it, a[0])
        if getattr(m, "sym", None) is not None:
            tot = z3.BitVecVal(0, 64)
            for _k, pres, _v in m.sym:
                tot = tot + z3.If(pres, z3.BitVecVal(1, 64), z3.BitVecVal(0, 64))
            return IntV(z3.simplify(tot), 64)
        return IntV(len(m.d), 64)

    @reg("HashMap::get")
    def hm_get(w, it, a, c):
        m = deref(it, a[0])
        if getattr(m, "sym", None) is not None:
            # symbolic map over a fixed key universe: fork on which (present) key is hit
            kv = deref(it, a[1])
            conds = [z3.And(kv.z() == z3.BitVecVal(k, 64), pres) for k, pres, _v in m.sym]
            conds.append(z3.Not(z3.Or(conds)))
            i = it.ex.branch(conds)
            if i < len(m.sym):
                return mk_some(Ref(Cell(m.sym[i][2], "symmap[%d]" % m.sym[i][0]), (), False))
            return mk_none()
        k = key_of(it, a[1])
        if k in m.d:
            return mk_some(Ref(m.d[k], (), False))
        return mk_none()

    @reg("HashMap::insert")
    def hm_insert(w, it, a, c):
        m = deref(it, a[0])
        k = key_of(it, a[1])
        old = m.d.get(k)
        m.d[k] = Cell(a[2], "map[%d]" % k)
        return mk_some(old.value) if old else mk_none()

    @reg("HashMap::remove")
    def hm_remove(w, it, a, c):
        m = deref(it, a[0])
        k = key_of(it, a[1])
        old = m.d.pop(k, None)
        return mk_some(old.value) if old else mk_none()

    @reg("HashMap::contains_key")
    def hm_contains(w, it, a, c):
        return key_of(it, a[1]) in deref(it, a[0]).d

    class HEntry(ModelObj):
        type_name = "Entry"

        def __init__(self, m, k):
            self.m, self.k = m, k

    @reg("HashMap::entry")
    def hm_entry(w, it, a, c):
        return HEntry(deref(it, a[0]), key_of(it, a[1]))

    @reg("Entry::and_modify")
    def he_and_modify(w, it, a, c):
        e = a[0]
        if e.k in e.m.d:
            it.call_closure(a[1], [Ref(e.m.d[e.k], (), True)])
        else:
            it.drop_value(a[1])
        return e

    @reg("Entry::or_insert", "Entry::or_insert_with", "Entry::or_default")
    def he_or_insert(w, it, a, c):
        e = a[0]
        meth = strip_generics(c).split("::")[-1]
        if e.k not in e.m.d:
            if meth == "or_insert":
                v = a[1]
            elif meth == "or_insert_with":
                v = it.call_closure(a[1], [])
            else:
                raise Unsupported("Entry::or_default")
            e.m.d[e.k] = Cell(v, "map[%d]" % e.k)
        elif len(a) > 1:
            it.drop_value(a[1])
        return Ref(e.m.d[e.k], (), True)

    @reg("Entry::key")
    def he_key(w, it, a, c):
        return Ref(Cell(IntV(deref(it, a[0]).k, 64), "entry-key"), (), False)

    @reg("HashMap::get_mut")
    def hm_get_mut(w, it, a, c):
        m = deref(it, a[0])
        k = key_of(it, a[1])
        if k in m.d:
            return mk_some(Ref(m.d[k], (), True))
        return mk_none()

    @reg("HashMap::is_empty")
    def hm_is_empty(w, it, a, c):
        return len(deref(it, a[0]).d) == 0

    @reg("HashMap::clear")
    def hm_clear(w, it, a, c):
        m = deref(it, a[0])
        for cell in list(m.d.values()):
            it.drop_value(cell.value)
        m.d.clear()
        return UNIT

    @reg("HashMap::values")
    def hm_values(w, it, a, c):
        return w.IterV([Ref(cl, (), False) for _k, cl in sorted(deref(it, a[0]).d.items())])

    @reg("HashMap::keys")
    def hm_keys(w, it, a, c):
        return w.IterV([Ref(Cell(IntV(k, 64), "key"), (), False) for k in sorted(deref(it, a[0]).d)])

    @reg("HashMap::iter")
    def hm_iter(w, it, a, c):
        return w.IterV([Agg("tuple", "", [Ref(Cell(IntV(k, 64), "key"), (), False), Ref(cl, (), False)]) for k, cl in sorted(deref(it, a[0]).d.items())])

    @reg("HashMap::retain")
    def hm_retain(w, it, a, c):
        m = deref(it, a[0])
        clo = Ref(Cell(a[1], "retain-closure"), (), True)
        for k in sorted(m.d):
            keep = it.truth(it.call_closure(clo, [Ref(Cell(IntV(k, 64), "key"), (), False), Ref(m.d[k], (), True)]))
            if not keep:
                it.drop_value(m.d.pop(k).value)
        return UNIT

    # ---------------- Vec<String> (format_cycle_path)
    class VecV(ModelObj):
        type_name = "Vec"

        def __init__(self, items=None):
            self.items = items or []

        def drop(self, it):
            items, self.items = self.items, []
            for x in items:
                it.drop_value(x)

    class IterV(ModelObj):
        type_name = "Iter"

        def __init__(self, items):
            self.items, self.i = list(items), 0

    w.IterV = IterV
    w.VecV = VecV

    @reg("Vec::new", "VecDeque::new", "Vec::with_capacity", "VecDeque::with_capacity")
    def vec_new(w, it, a, c):
        return VecV()

    @reg("Vec::len", "VecDeque::len")
    def vec_len(w, it, a, c):
        return IntV(len(deref(it, a[0]).items), 64)

    @reg("Vec::is_empty", "VecDeque::is_empty")
    def vec_is_empty(w, it, a, c):
        return len(deref(it, a[0]).items) == 0

    @reg("VecDeque::push_back")
    def vd_push_back(w, it, a, c):
        deref(it, a[0]).items.append(a[1])
        return UNIT

    @reg("VecDeque::push_front")
    def vd_push_front(w, it, a, c):
        deref(it, a[0]).items.insert(0, a[1])
        return UNIT

    @reg("VecDeque::pop_front")
    def vd_pop_front(w, it, a, c):
        v = deref(it, a[0])
        return mk_some(v.items.pop(0)) if v.items else mk_none()

    @reg("Vec::pop", "VecDeque::pop_back")
    def vec_pop(w, it, a, c):
        v = deref(it, a[0])
        return mk_some(v.items.pop()) if v.items else mk_none()

    @reg("Vec::clear", "VecDeque::clear")
    def vec_clear(w, it, a, c):
        v = deref(it, a[0])
        items, v.items = v.items, []
        for x in items:
            it.drop_value(x)
        return UNIT

    @reg("VecDeque::front", "Vec::first")
    def vd_front(w, it, a, c):
        v = deref(it, a[0])
        return mk_some(Ref(Cell(v.items[0], "front"), (), False)) if v.items else mk_none()

    @reg("Vec::iter", "VecDeque::iter", "slice::iter")
    def vec_iter(w, it, a, c):
        v = deref(it, a[0])
        items = v.items if isinstance(v, VecV) else v.fields
        return IterV([Ref(Cell(x, "elem"), (), False) for x in items])

    @reg("Vec::drain")
    def vec_drain(w, it, a, c):
        v = deref(it, a[0])
        items, v.items = v.items, []
        return IterV(items)

    @reg("bool::then_some")
    def bool_then_some(w, it, a, c):
        return mk_some(a[1]) if it.truth(a[0]) else mk_none()

    @reg("bool::then")
    def bool_then(w, it, a, c):
        return mk_some(it.call_closure(a[1], [])) if it.truth(a[0]) else mk_none()

    @reg("Vec::push")
    def vec_push(w, it, a, c):
        deref(it, a[0]).items.append(a[1])
        return UNIT

    @reg("Box::new_uninit")
    def box_new_uninit(w, it, a, c):
        # MaybeUninit<T> { uninit: (), value: ManuallyDrop<MaybeDangling<T>> }  (field paths .1.0.0)
        mu = Agg("struct", "MaybeUninit", [UNIT, Agg("struct", "ManuallyDrop", [Agg("struct", "MaybeDangling", [UNINIT])])])
        return BoxV(Cell(mu, "box-uninit"), "Box")

    @reg("slice::into_vec", "std::slice::into_vec", "box_assume_init_into_vec_unsafe", "std::boxed::box_assume_init_into_vec_unsafe")
    def into_vec(w, it, a, c):
        v = a[0]
        v = v.cell.value if isinstance(v, BoxV) else v
        if isinstance(v, Agg) and v.name == "MaybeUninit":
            v = v.fields[1].fields[0].fields[0]
        return VecV(list(v.fields) if isinstance(v, Agg) else [])

    @reg("slice::join", "join")
    def join(w, it, a, c):
        v = deref(it, a[0])
        items = v.items if isinstance(v, VecV) else v.fields
        return str(deref(it, a[1])).join(str(x) for x in items)

    # ---------------- time
    @reg("Duration::from_nanos")
    def dur_from_nanos(w, it, a, c):
        return Agg("struct", "Duration", [a[0].v])

    @reg("Duration::from_millis")
    def dur_from_millis(w, it, a, c):
        return Agg("struct", "Duration", [a[0].v * 1000000])

    @reg("Duration::from_secs")
    def dur_from_secs(w, it, a, c):
        return Agg("struct", "Duration", [a[0].v * 1000000000])

    @reg("Duration::from_micros")
    def dur_from_micros(w, it, a, c):
        return Agg("struct", "Duration", [a[0].v * 1000])

    @reg("Duration::as_secs")
    def dur_as_secs(w, it, a, c):
        d = deref(it, a[0]).fields[0]
        return IntV(d // 1000000000 if isinstance(d, int) else z3.UDiv(d, z3.BitVecVal(1000000000, 64)), 64)

    @reg("Duration::is_zero")
    def dur_is_zero(w, it, a, c):
        d = deref(it, a[0]).fields[0]
        return d == 0 if isinstance(d, int) else z3.simplify(d == 0)

    def dur_arith(kind):
        def f(w, it, a, c):
            x = deref(it, a[0]).fields[0]
            y = deref(it, a[1])
            y = y.fields[0] if isinstance(y, Agg) else y.v
            if kind == "add":
                r = x + y
                if isinstance(r, int) and r > 18446744073709551615999999999:
                    raise RustPanic("overflow when adding durations")
            elif kind == "sub":
                if isinstance(x, int) and isinstance(y, int):
                    if y > x:
                        raise RustPanic("overflow when subtracting durations")
                    r = x - y
                else:
                    r = x - y
            elif kind == "satsub":
                if isinstance(x, int) and isinstance(y, int):
                    r = max(0, x - y)
                else:
                    xz = x if not isinstance(x, int) else z3.BitVecVal(x, 64)
                    yz = y if not isinstance(y, int) else z3.BitVecVal(y, 64)
                    r = z3.If(z3.UGE(xz, yz), xz - yz, z3.BitVecVal(0, 64))
            elif kind == "mul":
                r = x * y
            elif kind == "div":
                if isinstance(y, int) and y == 0:
                    raise RustPanic("divide by zero")
                r = x // y if isinstance(x, int) and isinstance(y, int) else z3.UDiv(x if not isinstance(x, int) else z3.BitVecVal(x, 64), y if not isinstance(y, int) else z3.BitVecVal(y, 64))
            return Agg("struct", "Duration", [r if isinstance(r, int) else z3.simplify(r)])
        return f
    B["Duration::saturating_sub"] = dur_arith("satsub")
    B["Duration::mul_f64"] = None
    del B["Duration::mul_f64"]

    @reg("Duration::checked_sub")
    def dur_checked_sub(w, it, a, c):
        x = deref(it, a[0]).fields[0]
        y = deref(it, a[1]).fields[0]
        ge = w.zge(x, y)
        if it.ex.branch_bool(ge):
            r = x - y
            return mk_some(Agg("struct", "Duration", [r if isinstance(r, int) else z3.simplify(r)]))
        return mk_none()

    @reg("Duration::checked_add", "Duration::saturating_add")
    def dur_checked_add(w, it, a, c):
        x = deref(it, a[0]).fields[0]
        y = deref(it, a[1]).fields[0]
        r = x + y
        if isinstance(r, int) and r > 18446744073709551615999999999:
            return mk_none() if "checked" in c else Agg("struct", "Duration", [18446744073709551615999999999])
        d = Agg("struct", "Duration", [r if isinstance(r, int) else z3.simplify(r)])
        return mk_some(d) if "checked" in c else d

    w.dur_arith = dur_arith

    @reg("Duration::as_nanos")
    def dur_as_nanos(w, it, a, c):
        d = deref(it, a[0]).fields[0]
        return IntV(d if isinstance(d, int) else z3.ZeroExt(64, d), 128)

    @reg("Duration::as_millis")
    def dur_as_millis(w, it, a, c):
        d = deref(it, a[0]).fields[0]
        return IntV(d // 1000000 if isinstance(d, int) else z3.ZeroExt(64, z3.UDiv(d, z3.BitVecVal(1000000, 64))), 128)

    @reg("std::time::Instant::now", "time::Instant::now", "Instant::now")
    def instant_now(w, it, a, c):
        return Agg("struct", "Instant", [w.now])

    @reg("std::time::Instant::elapsed", "Instant::elapsed")
    def instant_elapsed(w, it, a, c):
        t0 = deref(it, a[0]).fields[0]
        d = w.now - t0
        return Agg("struct", "Duration", [d if isinstance(d, int) else z3.simplify(d)])

    @reg("SystemTime::now")
    def systime_now(w, it, a, c):
        return Agg("struct", "SystemTime", [w.now + 1000000000])

    @reg("SystemTime::duration_since")
    def systime_since(w, it, a, c):
        return mk_ok(Agg("struct", "Duration", [deref(it, a[0]).fields[0]]))

    @reg("SystemTime::checked_add")
    def systime_checked_add(w, it, a, c):
        return mk_some(Agg("struct", "SystemTime", [deref(it, a[0]).fields[0] + a[1].fields[0]]))

    @reg("tracing::__verif_event", "__verif_event")
    def verif_event(w, it, a, c):
        lvl = a[0].v if isinstance(a[0], IntV) else a[0]
        it.ex.event(ev="log", level={1: "warn", 2: "error"}.get(lvl, str(lvl)), task=w.cur_task.name if w.cur_task else None)
        return UNIT

    # ---------------- tracing model
    @reg("Span::none", "tracing::Span::none", "Span::current")
    def span_none(w, it, a, c):
        return Opaque("Span")

    # ---------------- tokio model
    @reg("tokio::sync::mpsc::channel", "mpsc::channel")
    def mpsc_channel(w, it, a, c):
        if "std::sync::mpsc" in c:
            return std_channel(w, it, a, c)
        cap = a[0]
        w.channel_requests = getattr(w, "channel_requests", [])
        w.channel_requests.append(cap)
        if isinstance(cap, IntV) and cap.is_sym():
            # data-flow obligation only (C09): remember the requested buffer expression and go on
            # with a placeholder capacity; buffer == 0 panics in tokio
            if not it.ex.branch_bool(cap.v != 0):
                raise RustPanic("mpsc bounded channel requires buffer > 0")
            ch = W.Chan(w, 1, "mpsc")
            it.ex.event(ev="channel", id=ch.id, cap="symbolic")
            return Agg("tuple", "", [W.Sender(ch), W.Receiver(ch)])
        if not isinstance(cap, IntV):
            raise Unsupported("channel capacity %r" % (cap,))
        if cap.v == 0:
            raise RustPanic("mpsc bounded channel requires buffer > 0")
        ch = W.Chan(w, cap.v, "mpsc")
        it.ex.event(ev="channel", id=ch.id, cap=cap.v)
        return Agg("tuple", "", [W.Sender(ch), W.Receiver(ch)])

    @reg("tokio::sync::mpsc::Sender::send")
    def tx_send(w, it, a, c):
        return W.SendFut(deref(it, a[0]).chan, a[1])

    @reg("tokio::sync::mpsc::Sender::try_send")
    def tx_try_send(w, it, a, c):
        ch = deref(it, a[0]).chan
        w.acc(ch.key(), True)
        if ch.closed:
            return mk_err(mk_enum("TrySendError", "Closed", a[1]))
        if ch.free == 0:
            return mk_err(mk_enum("TrySendError", "Full", a[1]))
        ch.free -= 1
        ch.push(a[1])
        return mk_ok(UNIT)

    @reg("tokio::sync::mpsc::Sender::send_timeout")
    def tx_send_timeout(w, it, a, c):
        return W.SendTimeoutFut(w, deref(it, a[0]).chan, a[1], a[2].fields[0])

    @reg("tokio::sync::mpsc::Sender::reserve")
    def tx_reserve(w, it, a, c):
        return W.ReserveFut(deref(it, a[0]).chan)

    @reg("tokio::sync::mpsc::Sender::try_reserve")
    def tx_try_reserve(w, it, a, c):
        ch = deref(it, a[0]).chan
        w.acc(ch.key(), True)
        if ch.closed:
            return mk_err(mk_enum("TrySendError", "Closed", UNIT))
        if ch.free == 0:
            return mk_err(mk_enum("TrySendError", "Full", UNIT))
        ch.free -= 1
        return mk_ok(W.Permit(ch))

    @reg("tokio::sync::mpsc::Permit::send", "Permit::send")
    def permit_send(w, it, a, c):
        p = a[0]
        p.used = True
        w.acc(p.chan.key(), True)
        p.chan.push(a[1])
        return UNIT

    @reg("tokio::sync::mpsc::Sender::blocking_send")
    def tx_blocking_send(w, it, a, c):
        f = W.SendFut(deref(it, a[0]).chan, a[1])
        return w.block_on(it, f)

    @reg("tokio::sync::mpsc::Sender::is_closed")
    def tx_is_closed(w, it, a, c):
        w.acc(deref(it, a[0]).chan.key(), False)
        return deref(it, a[0]).chan.closed

    @reg("tokio::sync::mpsc::Sender::downgrade")
    def tx_downgrade(w, it, a, c):
        return W.WeakSender(deref(it, a[0]).chan)

    @reg("tokio::sync::mpsc::Sender::strong_count", "WeakSender::strong_count", "tokio::sync::mpsc::WeakSender::strong_count")
    def tx_strong_count(w, it, a, c):
        w.acc(deref(it, a[0]).chan.txkey(), False)
        return IntV(deref(it, a[0]).chan.tx_count, 64)

    @reg("WeakSender::upgrade", "tokio::sync::mpsc::WeakSender::upgrade")
    def weak_upgrade(w, it, a, c):
        ch = deref(it, a[0]).chan
        w.acc(ch.txkey(), False)
        if ch.tx_count == 0:
            return mk_none()
        ch.tx_count += 1
        w.touch()
        return mk_some(W.Sender(ch))

    @reg("tokio::sync::mpsc::Sender::reserve_many")
    def tx_reserve_many(w, it, a, c):
        n = a[1].v
        if not isinstance(n, int):
            raise Unsupported("symbolic reserve_many count")
        return W.ReserveManyFut(deref(it, a[0]).chan, n)

    @reg("tokio::sync::mpsc::Sender::capacity")
    def tx_capacity(w, it, a, c):
        return IntV(deref(it, a[0]).chan.free, 64)

    @reg("tokio::sync::mpsc::Sender::max_capacity")
    def tx_max_capacity(w, it, a, c):
        return IntV(deref(it, a[0]).chan.cap, 64)

    @reg("tokio::sync::mpsc::Receiver::recv")
    def rx_recv(w, it, a, c):
        if "std::sync::mpsc" in c:
            return std_recv(w, it, a, c)
        return W.RecvFut(deref(it, a[0]))

    @reg("tokio::sync::mpsc::Receiver::try_recv")
    def rx_try_recv(w, it, a, c):
        r = deref(it, a[0]).poll_recv(it)
        if r.variant == "Pending":
            return mk_err(mk_enum("TryRecvError", "Empty"))
        o = r.fields[0]
        return mk_ok(o.fields[0]) if o.variant == "Some" else mk_err(mk_enum("TryRecvError", "Disconnected"))

    @reg("tokio::sync::mpsc::Receiver::close")
    def rx_close(w, it, a, c):
        w.acc(deref(it, a[0]).chan.key(), True)
        deref(it, a[0]).chan.close()
        return UNIT

    @reg("tokio::sync::oneshot::channel", "oneshot::channel")
    def os_channel(w, it, a, c):
        ch = W.OsChan(w)
        return Agg("tuple", "", [W.OsSender(ch), W.OsReceiver(ch)])

    @reg("tokio::sync::oneshot::Sender::send")
    def os_send(w, it, a, c):
        s = a[0]
        ch = s.c
        w.acc(("os", ch.id), True)
        if ch.rx_dropped:
            ch.tx_dropped = True
            return mk_err(a[1])
        ch.value = a[1]
        ch.has_value = True
        ch.tx_dropped = True
        w.touch()
        return mk_ok(UNIT)

    @reg("tokio::sync::oneshot::Sender::is_closed")
    def os_is_closed(w, it, a, c):
        ch = deref(it, a[0]).c
        w.acc(("os", ch.id), False)
        return ch.rx_dropped

    @reg("tokio::sync::oneshot::Receiver::try_recv")
    def os_try_recv(w, it, a, c):
        r = deref(it, a[0]).poll(it, None)
        if r.variant == "Pending":
            return mk_err(mk_enum("TryRecvError", "Empty"))
        o = r.fields[0]
        return mk_ok(o.fields[0]) if o.variant == "Ok" else mk_err(mk_enum("TryRecvError", "Disconnected"))

    @reg("tokio::sync::oneshot::Receiver::close")
    def os_rx_close(w, it, a, c):
        ch = deref(it, a[0]).c
        w.acc(("os", ch.id), True)
        ch.rx_dropped = True
        return UNIT

    @reg("tokio::sync::mpsc::Receiver::is_empty")
    def rx_is_empty(w, it, a, c):
        ch = deref(it, a[0]).chan
        w.acc(ch.key(), False)
        return len(ch.buf) == 0

    @reg("tokio::sync::mpsc::Receiver::recv_many")
    def rx_recv_many(w, it, a, c):
        rx = deref(it, a[0])
        vec = a[1]
        limit = a[2].v

        class RecvManyFut(ModelObj):
            type_name = "RecvManyFut"

            def poll(self_, it_, cx_):
                n = 0
                while n < limit:
                    r = rx.poll_recv(it_)
                    if r.variant == "Pending":
                        break
                    if r.fields[0].variant == "None":
                        break
                    deref(it_, vec).items.append(r.fields[0].fields[0])
                    n += 1
                if n == 0:
                    r = rx.poll_recv(it_)
                    if r.variant == "Pending":
                        return r
                    if r.fields[0].variant == "None":
                        return mk_ready(IntV(0, 64))
                    deref(it_, vec).items.append(r.fields[0].fields[0])
                    n = 1
                return mk_ready(IntV(n, 64))
        return RecvManyFut()

    @reg("tokio::sync::mpsc::Receiver::max_capacity")
    def rx_max_capacity(w, it, a, c):
        return IntV(deref(it, a[0]).chan.cap, 64)

    @reg("tokio::sync::mpsc::Receiver::capacity")
    def rx_capacity(w, it, a, c):
        ch = deref(it, a[0]).chan
        w.acc(ch.key(), False)
        return IntV(ch.free, 64)

    @reg("tokio::sync::mpsc::Receiver::len")
    def rx_len(w, it, a, c):
        ch = deref(it, a[0]).chan
        w.acc(ch.key(), False)
        return IntV(len(ch.buf), 64)

    @reg("tokio::sync::mpsc::Receiver::is_closed")
    def rx_is_closed(w, it, a, c):
        ch = deref(it, a[0]).chan
        w.acc(ch.key(), False)
        w.acc(ch.txkey(), False)
        return ch.closed or ch.tx_count == 0

    @reg("tokio::sync::mpsc::Sender::same_channel")
    def tx_same(w, it, a, c):
        return deref(it, a[0]).chan is deref(it, a[1]).chan

    @reg("tokio::sync::mpsc::Receiver::blocking_recv")
    def rx_blocking_recv(w, it, a, c):
        return w.block_on(it, W.RecvFut(deref(it, a[0])))

    class Sleep(ModelObj):
        type_name = "Sleep"

        def __init__(self, w, d):
            self.deadline = w.now + d
            w.deadlines.append(self.deadline)

        def poll(self, it, cx):
            w = it.env
            w.acc(("clock",), False)
            if it.ex.branch_bool(w.zge(w.now, self.deadline)):
                return mk_ready(UNIT)
            return mk_pending()

    @reg("tokio::time::sleep", "time::sleep")
    def tk_sleep(w, it, a, c):
        return Sleep(w, a[0].fields[0])

    class YieldNow(ModelObj):
        type_name = "YieldNow"

        def __init__(self):
            self.done = False

        def poll(self, it, cx):
            if self.done:
                return mk_ready(UNIT)
            self.done = True
            it.env.current_task_self_wake()
            return mk_pending()

    @reg("tokio::task::yield_now", "task::yield_now")
    def tk_yield(w, it, a, c):
        return YieldNow()

    @reg("tokio::time::Instant::now")
    def tk_instant_now(w, it, a, c):
        return Agg("struct", "Instant", [w.now])

    @reg("tokio::sync::mpsc::Sender::closed")
    def tx_closed(w, it, a, c):
        ch = deref(it, a[0]).chan

        class Closed(ModelObj):
            type_name = "Closed"

            def poll(self, it, cx):
                w.acc(ch.key(), False)
                return mk_ready(UNIT) if ch.closed else mk_pending()
        return Closed()

    @reg("JoinHandle::abort", "tokio::task::JoinHandle::abort")
    def jh_abort(w, it, a, c):
        t = deref(it, a[0]).task
        if t.state == "running":
            t.state = "cancelled"
            if t.fut is not None:
                f, t.fut = t.fut, None
                it.drop_value(f)
            w.acc(("task", t.id), True)
            w.touch()
        return UNIT

    @reg("JoinHandle::is_finished", "tokio::task::JoinHandle::is_finished")
    def jh_is_finished(w, it, a, c):
        t = deref(it, a[0]).task
        w.acc(("task", t.id), False)
        return t.state != "running"

    @reg("tokio::sync::oneshot::Receiver::blocking_recv")
    def os_blocking_recv(w, it, a, c):
        return w.block_on(it, a[0])

    @reg("tokio::time::timeout", "timeout")
    def tk_timeout(w, it, a, c):
        d = a[0].fields[0]
        return W.Timeout(w, d, a[1])

    @reg("tokio::spawn", "tokio::task::spawn")
    def tk_spawn(w, it, a, c):
        t = W.Task(w, "spawned%d" % len(w.tasks), a[0])
        w.last_spawn = t
        it.ex.event(ev="spawn", task=t.id)
        return W.JoinHandle(t)

    @reg("tokio::task::LocalKey::scope", "LocalKey::scope")
    def lk_scope(w, it, a, c):
        key = a[0]
        return W.TaskLocalFuture(key.cell, a[1], a[2])

    @reg("tokio::task::LocalKey::try_with", "LocalKey::try_with")
    def lk_try_with(w, it, a, c):
        pass
        key = a[0]
        v = key.cell.value
        if isinstance(v, Agg) and v.variant == "Some":
            return mk_ok(it.call_closure(a[1], [Ref(key.cell, (("as", "Some"), 0), False)]))
        it.drop_value(a[1])
        return mk_err(Agg("struct", "AccessError", []))

    # ---------------- tokio::sync::Semaphore (fair FIFO, close() fails the waiters)
    class SemV(ModelObj):
        type_name = "Semaphore"

        def __init__(self, n):
            self.permits, self.closed, self.queue, self.next = n, False, [], 0
            self.id = len(getattr(w, "sems", []))
            if not hasattr(w, "sems"):
                w.sems = []
            w.sems.append(self)

        def key(self):
            return ("sem", self.id)

    class SemPermit(ModelObj):
        type_name = "SemaphorePermit"

        def __init__(self, sem, n):
            self.sem, self.n = sem, n

        def drop(self, it):
            if self.n:
                w.acc(self.sem.key(), True)
                self.sem.permits += self.n
                self.n = 0
                w.touch()

    class SemAcquire(ModelObj):
        type_name = "Acquire"

        def __init__(self, sem, n):
            self.sem, self.n, self.ticket = sem, n, None

        def poll(self, it, cx):
            sm = self.sem
            w.acc(sm.key(), False)
            if sm.closed:
                return mk_ready(mk_err(Agg("struct", "AcquireError", [])))
            if self.ticket is None:
                self.ticket = sm.next
                sm.next += 1
                sm.queue.append((self.ticket, self.n))
                w.acc(sm.key(), True)
            if sm.queue and sm.queue[0][0] == self.ticket and sm.permits >= self.n:
                sm.permits -= self.n
                sm.queue.pop(0)
                self.ticket = None
                w.acc(sm.key(), True)
                w.touch()
                return mk_ready(mk_ok(SemPermit(sm, self.n)))
            return mk_pending()

        def drop(self, it):
            if self.ticket is not None:
                self.sem.queue = [x for x in self.sem.queue if x[0] != self.ticket]
                self.ticket = None
                w.acc(self.sem.key(), True)
                w.touch()

    def sem_of(it, v):
        v = deref(it, v)
        if isinstance(v, BoxV):
            v = v.cell.value
        return v

    @reg("tokio::sync::Semaphore::new", "Semaphore::new")
    def sem_new(w_, it, a, c):
        n = a[0].v if isinstance(a[0], IntV) else int(a[0])
        if not isinstance(n, int):
            raise Unsupported("symbolic semaphore size")
        return SemV(n)

    @reg("tokio::sync::Semaphore::acquire", "Semaphore::acquire")
    def sem_acquire(w_, it, a, c):
        return SemAcquire(sem_of(it, a[0]), 1)

    @reg("tokio::sync::Semaphore::acquire_many", "Semaphore::acquire_many")
    def sem_acquire_many(w_, it, a, c):
        return SemAcquire(sem_of(it, a[0]), a[1].v)

    @reg("tokio::sync::Semaphore::acquire_owned", "Semaphore::acquire_owned")
    def sem_acquire_owned(w_, it, a, c):
        return SemAcquire(sem_of(it, a[0]), 1)

    @reg("tokio::sync::Semaphore::try_acquire", "Semaphore::try_acquire")
    def sem_try_acquire(w_, it, a, c):
        sm = sem_of(it, a[0])
        w.acc(sm.key(), True)
        if sm.closed:
            return mk_err(mk_enum("TryAcquireError", "Closed"))
        if not sm.queue and sm.permits >= 1:
            sm.permits -= 1
            return mk_ok(SemPermit(sm, 1))
        return mk_err(mk_enum("TryAcquireError", "NoPermits"))

    @reg("tokio::sync::Semaphore::add_permits", "Semaphore::add_permits")
    def sem_add(w_, it, a, c):
        sm = sem_of(it, a[0])
        w.acc(sm.key(), True)
        sm.permits += a[1].v
        w.touch()
        return UNIT

    @reg("tokio::sync::Semaphore::close", "Semaphore::close")
    def sem_close(w_, it, a, c):
        sm = sem_of(it, a[0])
        w.acc(sm.key(), True)
        sm.closed = True
        w.touch()
        return UNIT

    @reg("tokio::sync::Semaphore::available_permits", "Semaphore::available_permits")
    def sem_avail(w_, it, a, c):
        sm = sem_of(it, a[0])
        w.acc(sm.key(), False)
        return IntV(sm.permits, 64)

    @reg("tokio::sync::Semaphore::is_closed", "Semaphore::is_closed")
    def sem_is_closed(w_, it, a, c):
        sm = sem_of(it, a[0])
        w.acc(sm.key(), False)
        return sm.closed

    @reg("tokio::sync::SemaphorePermit::forget", "SemaphorePermit::forget", "OwnedSemaphorePermit::forget")
    def sem_forget(w_, it, a, c):
        pm = a[0]
        pm.n = 0
        return UNIT

    # ---------------- std::thread_local! (per-"thread" storage; the current thread is w.cur_thread)
    @reg("std::thread::LocalKey::new")
    def std_lk_new(w, it, a, c):
        f = a[0]
        path = f.path if isinstance(f, FnItem) else str(f)
        return Opaque("StdLocalKey", strip_generics(path).split("::{constant")[0].split("::")[-1])

    def std_tls_cell(w, it, key):
        name = key.data
        th = getattr(w, "cur_thread", 0)
        if not hasattr(w, "tls"):
            w.tls = {}
        cell = w.tls.get((th, name))
        if cell is None:
            from .interp import Frame
            inits = [b for b in w.prog.bodies.values() if (("::" + name + "::") in ("::" + b.name) or b.name.startswith(name + "::")) and "init" in b.name.split("::")[-1].lower()]
            if len(inits) != 1:
                raise Unsupported("thread_local %s: initialiser not found (%d candidates)" % (name, len(inits)))
            b = inits[0]
            v = it.run(Frame(b), None)[1] if b.header.startswith(("const ", "static ")) else it.call_body(b, [])
            cell = Cell(v, "tls:%s@thread%d" % (name, th))
            w.tls[(th, name)] = cell
        return cell

    @reg("std::thread::LocalKey::with", "std::thread::LocalKey::try_with")
    def std_lk_with(w, it, a, c):
        key = deref(it, a[0])
        if not (isinstance(key, Opaque) and key.what == "StdLocalKey"):
            raise Unsupported("std LocalKey::with on %r" % (key,))
        cell = std_tls_cell(w, it, key)
        r = it.call_closure(a[1], [Ref(cell, (), False)])
        return mk_ok(r) if strip_generics(c).endswith("try_with") else r

    @reg("std::thread::LocalKey::set")
    def std_lk_set(w, it, a, c):
        cell = std_tls_cell(w, it, deref(it, a[0]))
        cell.value.fields[0] = a[1]
        return UNIT

    @reg("std::thread::LocalKey::get")
    def std_lk_get(w, it, a, c):
        cell = std_tls_cell(w, it, deref(it, a[0]))
        return it.copy_val(cell.value.fields[0])

    @reg("Cell::new", "std::cell::Cell::new")
    def cell_new(w, it, a, c):
        return Agg("struct", "Cell", [a[0]])

    @reg("Cell::get", "std::cell::Cell::get")
    def cell_get(w, it, a, c):
        return it.copy_val(deref(it, a[0]).fields[0])

    @reg("Cell::set", "std::cell::Cell::set")
    def cell_set(w, it, a, c):
        deref(it, a[0]).fields[0] = a[1]
        return UNIT

    @reg("Cell::replace", "std::cell::Cell::replace")
    def cell_replace(w, it, a, c):
        cl = deref(it, a[0])
        old, cl.fields[0] = cl.fields[0], a[1]
        return old

    @reg("Cell::take", "std::cell::Cell::take")
    def cell_take(w, it, a, c):
        cl = deref(it, a[0])
        old = cl.fields[0]
        cl.fields[0] = IntV(0, old.bits, old.signed) if isinstance(old, IntV) else mk_none()
        return old

    @reg("tokio::task::LocalKey::new", "LocalKey::new")
    def lk_new(w, it, a, c):
        return mk_none()

    @reg("tokio::macros::support::poll_budget_available", "support::poll_budget_available")
    def budget(w, it, a, c):
        return mk_ready(UNIT)

    @reg("tokio::macros::support::thread_rng_n", "support::thread_rng_n")
    def rng_n(w, it, a, c):
        n = a[0].v
        k = it.ex.choose(n, "select-start")
        return IntV(k, 32)

    # ---------------- blocking API plumbing: helper thread + private runtime
    @reg("tokio::runtime::Builder::new_current_thread", "Builder::new_current_thread", "Builder::new_multi_thread")
    def rt_builder(w, it, a, c):
        return Agg("struct", "Builder", [])

    @reg("tokio::runtime::Builder::enable_time", "Builder::enable_time", "Builder::enable_all", "Builder::enable_io")
    def rt_enable(w, it, a, c):
        return a[0]

    @reg("tokio::runtime::Builder::build", "Builder::build")
    def rt_build(w, it, a, c):
        return mk_ok(Agg("struct", "Runtime", []))

    @reg("futures::executor::block_on", "executor::block_on")
    def futures_block_on(w, it, a, c):
        return w.block_on(it, a[0])

    @reg("Runtime::block_on", "tokio::runtime::Runtime::block_on")
    def rt_block_on(w, it, a, c):
        saved = getattr(w, "plain_thread", False)
        w.plain_thread = False          # inside block_on the thread has a runtime context
        try:
            return w.block_on(it, a[1])
        finally:
            w.plain_thread = saved

    @reg("tokio::runtime::Handle::try_current", "Handle::try_current")
    def rt_try_current(w, it, a, c):
        # a runtime context exists in every task and inside Runtime::block_on; not on the plain
        # threads the blocking API is called from, nor on a freshly spawned std thread
        if getattr(w, "plain_thread", False):
            return mk_err(Agg("struct", "TryCurrentError", []))
        return mk_ok(Agg("struct", "Handle", []))

    @reg("std::thread::spawn", "thread::spawn")
    def thread_spawn(w, it, a, c):
        # the helper thread is run to completion at the spawn point (its only interaction with
        # the caller is the result channel)
        saved = getattr(w, "plain_thread", False)
        w.plain_thread = True
        try:
            r = it.call_closure(a[0], [])
        finally:
            w.plain_thread = saved
        return Opaque("ThreadJoinHandle")

    class StdChan(ModelObj):
        type_name = "StdChan"

        def __init__(self):
            self.q = []
            self.tx_alive = True

    class StdTx(ModelObj):
        type_name = "StdSender"

        def __init__(self, ch):
            self.ch = ch

        def drop(self, it):
            self.ch.tx_alive = False

    class StdRx(ModelObj):
        type_name = "StdReceiver"

        def __init__(self, ch):
            self.ch = ch

    def std_channel(w, it, a, c):
        ch = StdChan()
        return Agg("tuple", "", [StdTx(ch), StdRx(ch)])

    def std_recv(w, it, a, c):
        ch = deref(it, a[0]).ch
        if ch.q:
            return mk_ok(ch.q.pop(0))
        if not ch.tx_alive:
            return mk_err(Agg("struct", "RecvError", []))
        # a blocking wait on a std channel: the calling thread sleeps while everybody else runs
        # (interleaving semantics; which worker thread runs what is outside the model)

        class StdRecvFut(ModelObj):
            type_name = "StdRecvFut"

            def poll(self_, it_, cx_):
                if ch.q:
                    return mk_ready(mk_ok(ch.q.pop(0)))
                if not ch.tx_alive:
                    return mk_ready(mk_err(Agg("struct", "RecvError", [])))
                return mk_pending()
        return w.block_on(it, StdRecvFut())

    def std_recv_timeout(w, it, a, c):
        ch = deref(it, a[0]).ch
        if ch.q:
            return mk_ok(ch.q.pop(0))
        if not ch.tx_alive:
            return mk_err(mk_enum("RecvTimeoutError", "Disconnected"))
        return mk_err(mk_enum("RecvTimeoutError", "Timeout"))
    B["std::sync::mpsc::Receiver::recv_timeout"] = std_recv_timeout
    B["std::sync::mpsc::channel"] = std_channel
    B["std::sync::mpsc::sync_channel"] = std_channel        # capacity is irrelevant for the one-shot result hand-over it is used for
    B["std::sync::mpsc::Receiver::recv"] = std_recv

    @reg("std::sync::mpsc::Sender::send", "std::sync::mpsc::SyncSender::send", "SyncSender::send", "SyncSender::try_send")
    def std_send(w, it, a, c):
        deref(it, a[0]).ch.q.append(a[1])
        return mk_ok(UNIT)
