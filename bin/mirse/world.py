"""The environment of the interpreted code, one instance per path:
  * python model of tokio (mpsc / oneshot / time / spawn / task_local / select support) - the
    same rules as /verif/models/tokio (see the header of models/tokio/src/sync.rs);
  * builtins for the std functions the crate calls;
  * the scripted user actor (hooks and handlers with symbolic/enumerated outcomes)."""
import re

import z3

from .interp import Frame, type_head
from .mirparse import strip_generics, match_close, split_top
from .values import *  # noqa: F401,F403


# =====================================================================================
# tokio model
# =====================================================================================
class Chan:
    def __init__(self, w, cap, kind):
        self.w = w
        self.id = len(w.chans)
        self.cap = cap                  # python int
        self.free = cap
        self.buf = []
        self.closed = False
        self.rx_alive = True
        self.tx_count = 1
        self.next_ticket = 1
        self.waitq = []
        self.granted = []
        self.pushed = 0
        self.popped = 0
        self.max_len = 0
        self.kind = kind
        w.chans.append(self)

    def key(self):
        return ("chan", self.id)

    def txkey(self):
        return ("chan-tx", self.id)

    def release_one(self):
        if self.waitq:
            self.granted.append(self.waitq.pop(0))
        else:
            self.free += 1
        self.w.touch()

    def withdraw(self, t):
        if t in self.waitq:
            self.waitq.remove(t)
        elif t in self.granted:
            self.granted.remove(t)
            self.release_one()
        self.w.touch()

    def close(self):
        self.closed = True
        self.waitq = []
        self.w.touch()

    def push(self, v):
        self.buf.append(v)
        self.pushed += 1
        self.max_len = max(self.max_len, len(self.buf))
        self.w.touch()
        self.w.on_push(self, v)


class Sender(ModelObj):
    type_name = "Sender"

    def __init__(self, chan):
        self.chan = chan

    # The exact sender count is observable only through its zero-ness (recv -> None, upgrade,
    # strong_count > 0): increments/decrements that do not reach 0 commute with everything.
    def clone(self, it):
        self.chan.tx_count += 1
        self.chan.w.touch()
        return Sender(self.chan)

    def drop(self, it):
        self.chan.tx_count -= 1
        self.chan.w.touch()
        if self.chan.tx_count == 0:
            self.chan.w.acc(self.chan.txkey(), True)


class WeakSender(ModelObj):
    type_name = "WeakSender"

    def __init__(self, chan):
        self.chan = chan

    def clone(self, it):
        return WeakSender(self.chan)


class Receiver(ModelObj):
    type_name = "Receiver"

    def __init__(self, chan):
        self.chan = chan

    def poll_recv(self, it):
        c = self.chan
        c.w.acc(c.key(), bool(c.buf))
        c.w.acc(c.txkey(), False)
        if c.buf:
            v = c.buf.pop(0)
            c.popped += 1
            c.release_one()
            c.w.on_take(c, v)
            return mk_ready(mk_some(v))
        if c.tx_count == 0:
            return mk_ready(mk_none())
        if c.closed and c.free == c.cap:
            return mk_ready(mk_none())
        return mk_pending()

    def drop(self, it):
        c = self.chan
        c.w.acc(c.key(), True)
        c.close()
        c.rx_alive = False
        while c.buf:
            v = c.buf.pop(0)
            c.popped += 1
            c.release_one()
            it.drop_value(v)


class SendFut(ModelObj):
    type_name = "SendFut"

    def __init__(self, chan, value):
        self.chan, self.value, self.ticket = chan, value, 0

    def poll(self, it, cx):
        c = self.chan
        k = c.key()
        c.w.acc(k, False)
        if c.closed:
            if self.ticket:
                c.w.acc(k, True)
                c.withdraw(self.ticket)
                self.ticket = 0
            v, self.value = self.value, MOVED
            return mk_ready(mk_err(Agg("struct", "SendError", [v])))
        if self.ticket == 0:
            c.w.acc(k, True)
            if c.free > 0:
                c.free -= 1
                v, self.value = self.value, MOVED
                c.push(v)
                return mk_ready(mk_ok(UNIT))
            self.ticket = c.next_ticket
            c.next_ticket += 1
            c.waitq.append(self.ticket)
            c.w.touch()
            return mk_pending()
        if self.ticket in c.granted:
            c.w.acc(k, True)
            c.granted.remove(self.ticket)
            self.ticket = 0
            v, self.value = self.value, MOVED
            c.push(v)
            return mk_ready(mk_ok(UNIT))
        return mk_pending()

    def drop(self, it):
        if self.ticket:
            self.chan.w.acc(self.chan.key(), True)
            self.chan.withdraw(self.ticket)
            self.ticket = 0
        v, self.value = self.value, MOVED
        it.drop_value(v)


class SendTimeoutFut(ModelObj):
    type_name = "SendTimeoutFut"

    def __init__(self, w, chan, value, d):
        self.inner = SendFut(chan, value)
        self.deadline = w.now + d
        w.timeouts.append(d)
        w.deadlines.append(self.deadline)

    def poll(self, it, cx):
        r = self.inner.poll(it, cx)
        if r.variant == "Ready":
            res = r.fields[0]
            if res.variant == "Ok":
                return mk_ready(mk_ok(UNIT))
            return mk_ready(mk_err(mk_enum("SendTimeoutError", "Closed", res.fields[0].fields[0])))
        w = it.env
        w.acc(("clock",), False)
        if it.ex.branch_bool(w.zge(w.now, self.deadline)):
            if self.inner.ticket:
                self.inner.chan.w.acc(self.inner.chan.key(), True)
                self.inner.chan.withdraw(self.inner.ticket)
                self.inner.ticket = 0
            v, self.inner.value = self.inner.value, MOVED
            return mk_ready(mk_err(mk_enum("SendTimeoutError", "Timeout", v)))
        return mk_pending()

    def drop(self, it):
        self.inner.drop(it)


class Permit(ModelObj):
    type_name = "Permit"

    def __init__(self, chan):
        self.chan, self.used = chan, False

    def drop(self, it):
        if not self.used:
            self.used = True
            self.chan.w.acc(self.chan.key(), True)
            self.chan.release_one()


class PermitIter(ModelObj):
    """the iterator returned by reserve_many: n reserved slots"""
    type_name = "PermitIterator"

    def __init__(self, chan, n):
        self.chan, self.n = chan, n

    def iter_next(self, it):
        if self.n == 0:
            return mk_none()
        self.n -= 1
        return mk_some(Permit(self.chan))

    def drop(self, it):
        while self.n > 0:
            self.n -= 1
            self.chan.w.acc(self.chan.key(), True)
            self.chan.release_one()


class ReserveManyFut(ModelObj):
    """reserve_many(n): takes what is free, then queues for the rest as ONE waiter at its FIFO
    position (n consecutive tickets): later senders wait behind it although slots are free"""
    type_name = "ReserveManyFut"

    def __init__(self, chan, n):
        self.chan, self.n, self.have, self.tickets, self.started = chan, n, 0, [], False

    def poll(self, it, cx):
        c = self.chan
        k = c.key()
        c.w.acc(k, False)
        if c.closed:
            self.drop(it)
            return mk_ready(mk_err(Agg("struct", "SendError", [UNIT])))
        if not self.started:
            self.started = True
            c.w.acc(k, True)
            while self.have < self.n and c.free > 0 and not c.waitq:
                c.free -= 1
                self.have += 1
            for _ in range(self.n - self.have):
                self.tickets.append(c.next_ticket)
                c.waitq.append(c.next_ticket)
                c.next_ticket += 1
            c.w.touch()
        for t in list(self.tickets):
            if t in c.granted:
                c.w.acc(k, True)
                c.granted.remove(t)
                self.tickets.remove(t)
                self.have += 1
        if self.have == self.n:
            n, self.have = self.have, 0
            return mk_ready(mk_ok(PermitIter(c, n)))
        return mk_pending()

    def drop(self, it):
        c = self.chan
        for t in self.tickets:
            c.w.acc(c.key(), True)
            c.withdraw(t)
        self.tickets = []
        while self.have > 0:
            self.have -= 1
            c.w.acc(c.key(), True)
            c.release_one()


class ReserveFut(ModelObj):
    type_name = "ReserveFut"

    def __init__(self, chan):
        self.chan, self.ticket = chan, 0

    def poll(self, it, cx):
        c = self.chan
        k = c.key()
        c.w.acc(k, False)
        if c.closed:
            if self.ticket:
                c.w.acc(k, True)
                c.withdraw(self.ticket)
                self.ticket = 0
            return mk_ready(mk_err(Agg("struct", "SendError", [UNIT])))
        if self.ticket == 0:
            c.w.acc(k, True)
            if c.free > 0:
                c.free -= 1
                return mk_ready(mk_ok(Permit(c)))
            self.ticket = c.next_ticket
            c.next_ticket += 1
            c.waitq.append(self.ticket)
            c.w.touch()
            return mk_pending()
        if self.ticket in c.granted:
            c.w.acc(k, True)
            c.granted.remove(self.ticket)
            self.ticket = 0
            return mk_ready(mk_ok(Permit(c)))
        return mk_pending()

    def drop(self, it):
        if self.ticket:
            self.chan.w.acc(self.chan.key(), True)
            self.chan.withdraw(self.ticket)
            self.ticket = 0


class RecvFut(ModelObj):
    type_name = "RecvFut"

    def __init__(self, rx):
        self.rx = rx

    def poll(self, it, cx):
        return self.rx.poll_recv(it)


class OsChan:
    def __init__(self, w):
        self.w = w
        self.id = len(w.oneshots)
        self.value = None
        self.has_value = False
        self.tx_dropped = False
        self.rx_dropped = False
        w.oneshots.append(self)


class OsSender(ModelObj):
    type_name = "oneshot::Sender"

    def __init__(self, c):
        self.c = c

    def drop(self, it):
        self.c.tx_dropped = True
        self.c.w.touch()
        self.c.w.acc(("os", self.c.id), True)


class OsReceiver(ModelObj):
    type_name = "oneshot::Receiver"

    def __init__(self, c):
        self.c = c

    def poll(self, it, cx):
        c = self.c
        c.w.acc(("os", c.id), c.has_value)
        if c.has_value:
            c.has_value = False
            v, c.value = c.value, None
            return mk_ready(mk_ok(v))
        if c.tx_dropped:
            return mk_ready(mk_err(Agg("struct", "RecvError", [])))
        return mk_pending()

    def drop(self, it):
        c = self.c
        c.w.acc(("os", c.id), True)
        c.rx_dropped = True
        if c.has_value:
            c.has_value = False
            v, c.value = c.value, None
            it.drop_value(v)
        c.w.touch()


class Timeout(ModelObj):
    type_name = "Timeout"

    def __init__(self, w, d, fut):
        self.fut = fut
        self.d = d
        self.deadline = w.now + d          # z3 / int arithmetic on nanoseconds
        w.timeouts.append(d)
        w.deadlines.append(self.deadline)

    def poll(self, it, cx):
        r = it.env.poll_future(it, self.fut, cx)
        if r.variant == "Ready":
            return mk_ready(mk_ok(r.fields[0]))
        w = it.env
        w.acc(("clock",), False)
        if it.ex.branch_bool(w.zge(w.now, self.deadline)):
            return mk_ready(mk_err(Agg("struct", "Elapsed", [])))
        return mk_pending()

    def drop(self, it):
        it.drop_value(self.fut)


class TaskLocalFuture(ModelObj):
    type_name = "TaskLocalFuture"

    def __init__(self, key_cell, value, fut):
        self.key_cell, self.slot, self.fut = key_cell, mk_some(value), fut

    def poll(self, it, cx):
        self.key_cell.value, self.slot = self.slot, self.key_cell.value
        try:
            r = it.env.poll_future(it, self.fut, cx)
        finally:
            self.key_cell.value, self.slot = self.slot, self.key_cell.value
        return r

    def drop(self, it):
        it.drop_value(self.fut)


class PollFn(ModelObj):
    type_name = "PollFn"

    def __init__(self, clo):
        self.clo = clo

    def poll(self, it, cx):
        return it.call_closure(Ref(Cell(self.clo, "pollfn"), (), True), [cx])

    def drop(self, it):
        it.drop_value(self.clo)


class ReadyFut(ModelObj):
    """std::future::ready(v) / std::future::pending()"""
    type_name = "Ready"

    def __init__(self, v, never=False):
        self.v, self.never = v, never

    def poll(self, it, cx):
        if self.never:
            return mk_pending()
        v, self.v = self.v, MOVED
        if v is MOVED:
            raise RustPanic("`Ready` polled after completion")
        return mk_ready(v)

    def drop(self, it):
        if not self.never and self.v is not MOVED:
            it.drop_value(self.v)


class ActionFut(ModelObj):
    """a tell/ask issued by a scripted hook: reports the life cycle of the operation (first poll,
    completion, cancellation, panic) so that monitors can tell which asks are in flight"""
    type_name = "ActionFut"

    def __init__(self, w, fut, aid, by, kind, target):
        self.w, self.fut, self.aid, self.by, self.kind, self.target = w, fut, aid, by, kind, target
        self.polled = False
        self.over = False

    def poll(self, it, cx):
        if not self.polled:
            self.polled = True
            it.ex.event(ev="action_polled", aid=self.aid, by=self.by)
        try:
            r = self.w.poll_future(it, self.fut, cx)
        except RustPanic as p:
            self.over = True
            it.ex.event(ev="action_panicked", aid=self.aid, by=self.by, target=self.target, msg=p.msg[:100])
            raise
        if r.variant == "Ready":
            self.over = True
            it.ex.event(ev="action_done", aid=self.aid, by=self.by, result=self.w.describe(r.fields[0]))
        return r

    def drop(self, it):
        if not self.over:
            self.over = True
            it.ex.event(ev="action_dropped", aid=self.aid, by=self.by)
        it.drop_value(self.fut)


class JoinAll(ModelObj):
    """join!(f1, f2, ..): polls every unfinished member in order; Ready(()) when all are done"""
    type_name = "JoinAll"

    def __init__(self, w, futs):
        self.w, self.futs, self.done = w, list(futs), [False] * len(futs)

    def poll(self, it, cx):
        for i, f in enumerate(self.futs):
            if self.done[i]:
                continue
            r = self.w.poll_future(it, f, cx)
            if r.variant == "Ready":
                self.done[i] = True
                it.ex.event(ev="hook_action_done", hook="join", actor="?", result=self.w.describe(r.fields[0]))
                it.drop_value(f)
        return mk_ready(UNIT) if all(self.done) else mk_pending()

    def drop(self, it):
        for i, f in enumerate(self.futs):
            if not self.done[i]:
                self.done[i] = True
                it.drop_value(f)


class CatchUnwind(ModelObj):
    """futures::FutureExt::catch_unwind: a panic of the inner future becomes Ready(Err(payload))"""
    type_name = "CatchUnwind"

    def __init__(self, w, fut):
        self.w, self.fut = w, fut

    def poll(self, it, cx):
        try:
            r = self.w.poll_future(it, self.fut, cx)
        except RustPanic as p:
            self.w.unwinding_now = False
            it.ex.event(ev="panic_caught", msg=p.msg[:80])
            return mk_ready(mk_err(BoxV(Cell(Opaque("PanicPayload", p.msg), "panic payload"), "Box")))
        if r.variant == "Pending":
            return r
        return mk_ready(mk_ok(r.fields[0]))

    def drop(self, it):
        it.drop_value(self.fut)


class JoinHandle(ModelObj):
    type_name = "JoinHandle"

    def __init__(self, task):
        self.task = task

    def poll(self, it, cx):
        t = self.task
        t.w.acc(("task", t.id), False)
        if t.state == "running":
            return mk_pending()
        if t.state == "finished":
            t.state = "taken"
            return mk_ready(mk_ok(t.result))
        if t.state == "panicked":
            return mk_ready(mk_err(Agg("struct", "JoinError", [IntV(t.id, 8), True])))
        if t.state == "cancelled":
            return mk_ready(mk_err(Agg("struct", "JoinError", [IntV(t.id, 8), False])))
        raise RustPanic("JoinHandle polled after completion")


class Task:
    def __init__(self, w, name, fut):
        self.w = w
        self.id = len(w.tasks)
        self.name = name
        self.fut = fut
        self.state = "running"     # running finished panicked cancelled taken
        self.result = None
        self.last_pending_version = -1
        self.self_wake = False
        self.wait = None
        self.panic_msg = None
        w.tasks.append(self)


# =====================================================================================
# scripted user actor
# =====================================================================================
class Script:
    """what the user actor does; all fields have defaults so that a scenario states only what
    it varies.  Outcomes: 'ok' | 'err' | 'panic'."""

    def __init__(self, name="A", **kw):
        self.name = name
        self.on_start = ("ok", 0)           # (outcome, yields)
        self.on_run = []                    # list of (outcome 'true'|'false'|'err'|'panic', yields); default after the list
        self.on_run_default = ("false", 0)
        self.on_stop = ("ok", 0)
        self.handler_yields = {}            # msg id (python int) -> yields ; default 0
        self.handler_panics = set()
        self.handler_actions = {}           # msg id -> list of actions run inside the handler
        self.on_start_actions = []
        self.on_run_actions = []
        self.on_stop_actions = []
        self.err_tag = 40
        self.__dict__.update(kw)


class HookFuture(ModelObj):
    """future returned by a scripted hook / handler"""
    type_name = "HookFuture"

    def __init__(self, w, kind, actor_name, yields, finish, actions=None, info=None, actor_ref=None):
        self.w, self.kind, self.actor_name = w, kind, actor_name
        self.yields_left = yields
        self.finish = finish            # callable(it) -> output value (may raise RustPanic)
        self.actions = list(actions or [])
        self.cur = None                 # future of the action in progress
        self.started = False
        self.info = info or {}
        self.body_polls = 0
        self.action_results = []

    def poll(self, it, cx):
        w = self.w
        if not self.started:
            self.started = True
            it.ex.event(ev="hook_enter", hook=self.kind, actor=self.actor_name, **{k: v for k, v in self.info.items() if not k.startswith("_")})
        self.body_polls += 1
        a = w.actors.get(self.actor_name)
        if a and a.get("mailbox") is not None:
            w.acc(a["mailbox"].key(), False)
            w.acc(a["term"].key(), False)
        it.ex.event(ev="hook_poll", hook=self.kind, actor=self.actor_name, n=self.body_polls,
                    mailbox=w.mailbox_len(self.actor_name), kill_pending=w.kill_pending(self.actor_name))
        while True:
            if self.cur is not None:
                r = w.poll_future(it, self.cur, cx)
                if r.variant == "Pending":
                    return mk_pending()
                self.action_results.append(r.fields[0])
                it.ex.event(ev="hook_action_done", hook=self.kind, actor=self.actor_name, result=w.describe(r.fields[0]))
                it.drop_value(self.cur)
                self.cur = None
                continue
            if self.actions:
                act = self.actions.pop(0)
                self.cur = w.start_action(it, act, self)
                if self.cur is None:
                    continue
                continue
            break
        if isinstance(self.yields_left, tuple) and self.yields_left[0] == "sleep":
            # the hook takes a given amount of virtual time (a sleep registered with the timer, so
            # that a blocking caller's clock jump can reach it)
            w.acc(("clock",), False)
            if self.info.get("_wake_at") is None:
                self.info["_wake_at"] = w.now + self.yields_left[1]
                w.deadlines.append(self.info["_wake_at"])
            if not it.ex.branch_bool(w.zge(w.now, self.info["_wake_at"])):
                return mk_pending()
            self.yields_left = 0
        if self.yields_left == "tick":
            # a periodic hook: waits for the (virtual) timer, i.e. until the clock has moved
            w.acc(("clock",), False)
            if self.info.get("_armed_at") is None:
                self.info["_armed_at"] = w.obj_ver.get(("clock",), 0)
                return mk_pending()
            if w.obj_ver.get(("clock",), 0) == self.info["_armed_at"]:
                return mk_pending()
            self.yields_left = 0
        if self.yields_left > 0:
            self.yields_left -= 1
            w.current_task_self_wake()
            return mk_pending()
        try:
            out = self.finish(it)
        except RustPanic:
            it.ex.event(ev="hook_panic", hook=self.kind, actor=self.actor_name)
            raise
        it.ex.event(ev="hook_exit", hook=self.kind, actor=self.actor_name, out=w.describe(out), **{k: v for k, v in self.info.items() if not k.startswith("_")})
        return mk_ready(out)

    def drop(self, it):
        if self.cur is not None:
            it.drop_value(self.cur)
            self.cur = None
        if self.started:
            it.ex.event(ev="hook_dropped", hook=self.kind, actor=self.actor_name)


# =====================================================================================
class World:
    def __init__(self, prog, ex):
        self.prog = prog
        self.ex = ex
        self.chans = []
        self.oneshots = []
        self.tasks = []
        self.timeouts = []
        self.version = 0
        self.now = 0                      # ns; python int or z3 BitVec(64)
        self.cur_task = None
        self.dead_letters = []            # (reason, op, actor id)
        self.actors = {}                  # actor name -> dict(script, ref_cell, mailbox chan, term chan, task, id)
        self.last_spawn = None
        self.statics = {}
        self.rng_next = None
        self.builtins = {}
        self.thread_results = []
        self.deadlines = []
        self.unwinding_now = False
        self.cur_fp = {}
        self.obj_ver = {}
        from . import builtins_std
        builtins_std.install(self)

    # ---- misc helpers ------------------------------------------------------------------
    def touch(self):
        self.version += 1

    def acc(self, key, write=False):
        """record an access of the running step to a shared object (footprint for the
        partial-order reduction, wait-set for precise wake-ups)"""
        fp = self.cur_fp
        if write:
            self.obj_ver[key] = self.obj_ver.get(key, 0) + 1
            fp[key] = "w"
        elif fp.get(key) != "w":
            fp[key] = "r"

    def zge(self, a, b):
        if isinstance(a, int) and isinstance(b, int):
            return a >= b
        az = z3.BitVecVal(a, 64) if isinstance(a, int) else a
        bz = z3.BitVecVal(b, 64) if isinstance(b, int) else b
        return z3.UGE(az, bz)

    def advance(self, d):
        self.ex.event(ev="clock", d_raw=d)
        self.acc(("clock",), True)
        self.now = self.now + d
        if not isinstance(self.now, int):
            self.now = z3.simplify(self.now)
        self.touch()

    def mk_catch_unwind(self, fut):
        return CatchUnwind(self, fut)

    def current_task_self_wake(self):
        if self.cur_task is not None:
            self.cur_task.self_wake = True

    def mailbox_len(self, actor_name):
        a = self.actors.get(actor_name)
        return len(a["mailbox"].buf) if a and a.get("mailbox") else -1

    def kill_pending(self, actor_name):
        a = self.actors.get(actor_name)
        return bool(a and a.get("term") and a["term"].buf)

    def describe(self, v):
        if isinstance(v, IntV):
            return v.v if not v.is_sym() else str(v.v)
        if isinstance(v, bool) or v is None or isinstance(v, (int, str)):
            return v
        if isinstance(v, tuple) and not v:
            return "()"
        if isinstance(v, z3.ExprRef):
            return str(v)
        if isinstance(v, Agg):
            if v.kind == "enum":
                return "%s(%s)" % (v.variant, ",".join(str(self.describe(f)) for f in v.fields)) if v.fields else v.variant
            return "%s{%s}" % (v.name, ",".join(str(self.describe(f)) for f in v.fields[:4]))
        if isinstance(v, BoxV):
            return "Box(%s)" % self.describe(v.cell.value)
        return type(v).__name__

    def msg_label(self, v):
        if isinstance(v, Agg) and v.variant == "Envelope":
            pl = v.fields[0]
            inner = pl.cell.value if isinstance(pl, BoxV) else pl
            idv = inner.fields[0] if isinstance(inner, Agg) and inner.fields else None
            return {"what": "msg", "id": idv, "ask": v.fields[1].variant == "Some", "kind": inner.name if isinstance(inner, Agg) else "?"}
        if isinstance(v, Agg) and v.variant == "StopGracefully":
            return {"what": "stop"}
        if isinstance(v, Agg) and v.variant == "Terminate":
            return {"what": "terminate"}
        return {"what": "other"}

    def on_push(self, chan, v):
        self.ex.event(ev="accepted", chan=chan.kind, clock=self.sim.tick() if hasattr(self, "sim") else 0, **self.msg_label(v))

    def on_take(self, chan, v):
        self.ex.event(ev="taken", chan=chan.kind, clock=self.sim.tick() if hasattr(self, "sim") else 0, **self.msg_label(v))

    # ---- futures -----------------------------------------------------------------------
    def poll_future(self, it, fut, cx):
        """poll any future value (by value or through Pin/&mut/Box)"""
        v = fut
        while True:
            if isinstance(v, Agg) and v.name == "Pin":
                v = v.fields[0]
            elif isinstance(v, Ref):
                v = it.load(v.cell, v.path)
            elif isinstance(v, BoxV):
                v = v.cell.value
            elif isinstance(v, Agg) and v.name == "AssertUnwindSafe":
                v = v.fields[0]
            else:
                break
        if isinstance(v, ModelObj) and hasattr(v, "poll"):
            return v.poll(it, cx)
        if isinstance(v, Agg) and v.kind == "coroutine":
            r = it.resume_coroutine(v, cx)
            if r[0] == "yield":
                return mk_pending()
            return mk_ready(r[1])
        raise Unsupported("poll of %r" % (v,))

    def poll_task(self, it, t):
        """one scheduler step: poll task t once"""
        self.cur_task = t
        t.self_wake = False
        cx = Opaque("Context", t.id)
        self.cur_fp = {}
        self.ex.event(ev="poll", task=t.name)
        try:
            r = self.poll_future(it, t.fut, cx)
        except RustPanic as p:
            self.unwinding_now = False
            t.state = "panicked"
            t.panic_msg = p.msg
            it.ex.event(ev="task_panicked", task=t.name, msg=p.msg[:120])
            # tokio drops the future of a panicked task
            try:
                it.drop_value(t.fut)
            except RustPanic:
                pass
            t.fut = None
            self.touch()
            self.acc(("task", t.id), True)
            self.cur_task = None
            self.release_peer_refs(it, t)
            return
        self.cur_task = None
        if r.variant == "Ready":
            self.acc(("task", t.id), True)
            t.state = "finished"
            t.result = r.fields[0]
            it.ex.event(ev="task_finished", task=t.name, result=self.describe(t.result))
            it.drop_value(t.fut)
            t.fut = None
            self.touch()
            self.release_peer_refs(it, t)
        else:
            t.last_pending_version = self.version
            t.wait = {k: self.obj_ver.get(k, 0) for k in self.cur_fp}

    def release_peer_refs(self, it, t):
        """references a scripted actor holds to its peers die with the actor"""
        for a in self.actors.values():
            if a.get("task") is t:
                for c in a.get("peer_refs", {}).values():
                    if c.value is not MOVED:
                        v, c.value = c.value, MOVED
                        it.drop_value(v)

    def finish_external_task(self, t, how, value=None):
        """environment action: a task spawned by a handler ends (finished with a value / panicked / aborted)"""
        if t.state != "running":
            return
        t.state = {"finish": "finished", "panic": "panicked", "abort": "cancelled"}[how]
        t.result = value
        self.acc(("task", t.id), True)
        self.touch()
        self.ex.event(ev="external_task_end", task=t.id, how=how)

    def runnable(self, t):
        if t.state != "running" or t.fut is None:
            return False
        if t.self_wake or t.wait is None:
            return True
        return any(self.obj_ver.get(k, 0) != v for k, v in t.wait.items())

    # ---- blocking calls (no threads in the model: the caller spins, everybody else runs) ------
    def block_on(self, it, fut):
        """a blocking wait: the caller spins on `fut`; between two polls ONE other transition
        happens, chosen by the (explored) scheduler: another task is polled, the clock advances.
        If nothing else can happen the clock jumps to the next timer deadline; if there is none
        the call can never return (BlockedForever)."""
        cx = Opaque("Context", "blocking")
        saved = self.cur_task
        outer_fp = self.cur_fp
        for _n in range(60):
            r = self.poll_future(it, fut, cx)
            self.cur_task = saved
            if r.variant == "Ready":
                if not (isinstance(fut, Agg) and fut.kind == "coroutine"):
                    it.drop_value(fut)
                outer_fp[("*",)] = "w"
                self.cur_fp = outer_fp
                return r.fields[0]
            opts = [("poll", t) for t in self.tasks if t is not saved and self.runnable(t)]
            for g, run, label in self.sim.extra_actions:
                if g():
                    opts.append(("act", (run, label)))
            if opts:
                k = it.ex.choose(len(opts), "blocked:" + "/".join(x.name if kd == "poll" else "env:" + x[1] for kd, x in opts))
                kind, x = opts[k]
                if kind == "poll":
                    it.ex.event(ev="sched", task=x.name, clock=self.sim.tick(), now_raw=self.now, nested=True)
                    self.poll_task(it, x)
                else:
                    it.ex.event(ev="env", what=x[1], clock=self.sim.tick(), nested=True)
                    x[0]()
                self.cur_task = saved
                continue
            nxt = [t for t in self.deadlines if isinstance(t, int) and isinstance(self.now, int) and t > self.now]
            if not nxt:
                outer_fp[("*",)] = "w"
                self.cur_fp = outer_fp
                raise BlockedForever()
            self.now = min(nxt)
            self.obj_ver[("clock",)] = self.obj_ver.get(("clock",), 0) + 1
            self.touch()
            it.ex.event(ev="clock_jump", now=self.now)
        raise Unsupported("block_on bound exceeded")

    # ---- actions inside hooks / client tasks ---------------------------------------------
    def start_action(self, it, act, hook):
        """act: tuple.  Returns a future to await, or None if the action is synchronous."""
        kind = act[0]
        if kind in ("ask", "tell", "ask_t", "tell_t"):
            target = self.actors[act[1]]
            holder = self.actors.get(hook.actor_name) if hook else None
            cell = (holder or {}).get("peer_refs", {}).get(act[1]) or target["ref_cell"]
            if cell.value is MOVED:
                raise Unsupported("scripted actor %s has no live reference to %s" % (hook.actor_name if hook else "?", act[1]))
            refv = Ref(cell, (), False)
            msg = self.mk_msg(act[2])
            meth = {"ask": "ask", "tell": "tell", "ask_t": "ask_with_timeout", "tell_t": "tell_with_timeout"}[kind]
            args = [refv, msg]
            if kind.endswith("_t"):
                args.append(self.mk_duration(act[3]))
            self.action_seq = getattr(self, "action_seq", 0) + 1
            aid = self.action_seq
            it.ex.event(ev="action_start", kind=kind, target=act[1], msg=self.describe(msg.fields[0]), by=hook.actor_name if hook else None, aid=aid)
            return ActionFut(self, self.call_method(it, "ActorRef", meth, args), aid, hook.actor_name if hook else None, kind, act[1])
        if kind == "yield":
            from .sim import Yield
            return Yield()
        if kind == "join":
            # futures::join!(a, b, ..): the sub-actions are started in order and awaited together
            futs = [self.start_action(it, sub, hook) for sub in act[1:]]
            return JoinAll(self, [f for f in futs if f is not None])
        if kind == "ask_then_panic":
            # an ask to a peer is in flight (pinned across a join!/select!) when the same hook panics
            fut = self.start_action(it, ("ask", act[1], act[2]), hook)
            cx = Opaque("Context", "hook")
            r = self.poll_future(it, fut, cx)
            hook.cur = fut            # dropped by HookFuture.drop during the unwinding
            it.ex.event(ev="scripted_panic_mid_ask", by=hook.actor_name, target=act[1])
            raise RustPanic("scripted panic in %s while its ask to %s is in flight" % (hook.actor_name, act[1]))
        if kind == "kill":
            target = self.actors[act[1]]
            r = self.call_method(it, "ActorRef", "kill", [Ref(target["ref_cell"], (), False)])
            it.ex.event(ev="kill_returned", target=act[1], result=self.describe(r))
            return None
        if kind == "stop":
            target = self.actors[act[1]]
            holder = self.actors.get(hook.actor_name) if hook else None
            cell = (holder or {}).get("peer_refs", {}).get(act[1]) or target["ref_cell"]
            return self.call_method(it, "ActorRef", "stop", [Ref(cell, (), False)])
        raise Unsupported("action " + kind)

    def mk_msg(self, idv):
        if isinstance(idv, int):
            idv = IntV(idv, 8)
        elif not isinstance(idv, IntV):
            idv = IntV(idv, 8)
        return Agg("struct", "Msg", [idv])

    DURATION_MAX_NS = 18446744073709551615999999999

    def mk_duration(self, ns):
        if isinstance(ns, str) and ns == "MAX":
            ns = self.DURATION_MAX_NS
        return Agg("struct", "Duration", [ns if not isinstance(ns, IntV) else ns.v])

    def call_method(self, it, ty, meth, args):
        name = self.prog.impl_index.get((ty, None, meth))
        if name is None:
            raise Unsupported("no inherent method %s::%s in the crate" % (ty, meth))
        b = self.prog.bodies[name]
        return it.call_body(b, args)

    def call_trait_method(self, it, ty, trait, meth, args):
        name = self.prog.impl_index.get((ty, trait, meth))
        if name is None:
            raise Unsupported("no impl %s for %s :: %s" % (trait, ty, meth))
        return it.call_body(self.prog.bodies[name], args)

    # ---- statics / consts ----------------------------------------------------------------
    def static_init(self, it, name):
        short = name.split("::")[-1]
        b = self.prog.statics.get(name) or self.prog.statics.get(short)
        if b is None:
            raise Unsupported("static " + name)
        fr = Frame(b)
        r = it.run(fr, None)
        return r[1]

    def const_path(self, it, path, ty, frame=None):
        s = strip_generics(path)
        last = s.split("::")[-1]
        b = self.prog.statics.get(last)
        if b is not None and b.header.startswith("const ") and "{constant#" not in last:
            key = "const:" + b.name
            if key not in it.static_cells:
                it.static_cells[key] = Cell(it.run(Frame(b), None)[1], key)
            return it.copy_val(it.static_cells[key].value)
        mm = re.search(r"<impl (u8|u16|u32|u64|u128|usize|i8|i16|i32|i64|i128|isize)>::(MAX|MIN|BITS)$", path)
        if mm:
            from .mirparse import INT_TYPES
            bits, signed = INT_TYPES[mm.group(1)]
            if mm.group(2) == "BITS":
                return IntV(bits, 32)
            if mm.group(2) == "MAX":
                return IntV((1 << (bits - 1)) - 1 if signed else (1 << bits) - 1, bits, signed)
            return IntV(-(1 << (bits - 1)) if signed else 0, bits, signed)
        if path.endswith("Duration::MAX") or s.endswith("Duration::MAX"):
            return Agg("struct", "Duration", [18446744073709551615999999999])
        if path.endswith("Duration::ZERO") or s.endswith("Duration::ZERO"):
            return Agg("struct", "Duration", [0])
        if s.endswith("SystemTime::UNIX_EPOCH") or s.endswith("UNIX_EPOCH"):
            return Agg("struct", "SystemTime", [0])
        if last == "BRANCHES" and "Out" in self.prog.enums:
            # tokio::select!'s `const BRANCHES: u32 = count!(..)` (CTFE constant, not dumped): the
            # number of branches of *this* select = number of type arguments of the `Out<..>` enum
            # used in the poll_fn closure that reads the constant
            n = None
            if frame is not None:
                for blk in frame.body.blocks.values():
                    for st in blk.stmts:
                        if st.kind == "assign" and st.rv.kind == "adt":
                            mm = re.search(r"Out::<(.*)>::\w+$", st.rv.a, re.S)
                            if mm and "__tokio_select_util" in st.rv.a:
                                n = len(split_top(mm.group(1)))
            if n is None:
                n = len(self.prog.enums["Out"]) - 1
            return IntV(n, 32)
        if re.match(r"^[A-Z][A-Z0-9_]+$", last):
            v = self.source_const(last)
            if v is not None:
                return v
        # function items are zero-sized constants
        return FnItem(path)

    def source_const(self, name):
        """`const NAME: <int type> = <literal>;` in the crate source (CTFE constants have no MIR dump)"""
        import os
        from .mirparse import INT_TYPES
        for root, _d, files in os.walk(self.prog.src_root):
            for f in files:
                if not f.endswith(".rs"):
                    continue
                txt = open(os.path.join(root, f)).read()
                m = re.search(r"\bconst\s+%s\s*:\s*(\w+)\s*=\s*([0-9_]+)\s*;" % re.escape(name), txt)
                if m and m.group(1) in INT_TYPES:
                    return IntV(int(m.group(2).replace("_", "")), *INT_TYPES[m.group(1)])
        return None

    # ---- call dispatch ---------------------------------------------------------------------
    def call(self, it, callee, args, frame):
        from . import builtins_std
        return builtins_std.dispatch(self, it, callee, args, frame)
