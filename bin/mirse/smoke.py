import sys, time, traceback
sys.path.insert(0, "/verif/bin")
from mirse import dump, mirparse, interp, explore, sim
from mirse.world import Script
from mirse.values import *

d, src, secs, log = dump.dump("/repo", "/verif/work", ["deadlock-detection", "metrics", "test-utils"] if len(sys.argv) > 1 and sys.argv[1] == "all" else [])
print("dump", d, secs)
if d is None:
    print(log[-2000:]); sys.exit(2)
bodies, errs = mirparse.load_dir(d)
print(len(bodies), "bodies", errs)
prog = interp.Program(bodies, src)

def path(ex):
    s = sim.Sim(prog, ex)
    s.spawn_actor(Script("A"), 2)
    s.client("c1", [("tell", "A", 1), ("tell", "A", 2)], ["A"])
    s.client("c2", [("ask", "A", 3)], ["A"])
    s.drop_main("A")
    s.run(40)
    ex.steps = s.it.steps
    ex.sim = s

n = [0]
def on_path(ex):
    n[0] += 1
    if n[0] <= 2:
        for e in ex.events: print("   ", e)
        print("  tasks:", [(t.name, t.state, ex.sim.w.describe(t.result)) for t in ex.sim.w.tasks])
t0 = time.time()
try:
    v, u, st = explore.explore(path, max_paths=int(sys.argv[2]) if len(sys.argv) > 2 else 3, on_path=on_path)
    print("paths", st.paths, "viol", v, "unsupported", u, "smt", st.smt_queries, "steps", st.steps, "wall", time.time() - t0)
except Exception:
    traceback.print_exc()
