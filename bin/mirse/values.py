"""Value domain of the MIR symbolic interpreter."""
import z3


class Unsupported(Exception):
    """the interpreter met something it does not model -> the run is inconclusive"""


class RustPanic(Exception):
    """a Rust panic travelling up the (interpreted) call stack along the MIR unwind edges"""

    def __init__(self, msg=""):
        Exception.__init__(self, msg)
        self.msg = msg


class BlockedForever(Exception):
    """a blocking call that can never return in the model (nothing runnable, no timer pending)"""


class PathInfeasible(Exception):
    pass


class Violation(Exception):
    def __init__(self, prop, msg, detail=None):
        Exception.__init__(self, msg)
        self.prop, self.msg, self.detail = prop, msg, detail


class _Sentinel:
    def __init__(self, n):
        self.n = n

    def __repr__(self):
        return self.n

    def __deepcopy__(self, memo):
        return self


UNINIT = _Sentinel("<uninit>")
MOVED = _Sentinel("<moved>")
UNIT = ()


class Cell:
    __slots__ = ("value", "tag")

    def __init__(self, value=UNINIT, tag=""):
        self.value = value
        self.tag = tag

    def __repr__(self):
        return "Cell(%s:%r)" % (self.tag, self.value)


class IntV:
    """fixed-width integer; v is a python int (kept normalised) or a z3 BitVecRef"""
    __slots__ = ("v", "bits", "signed")

    def __init__(self, v, bits=64, signed=False):
        self.bits, self.signed = bits, signed
        if isinstance(v, int):
            v &= (1 << bits) - 1
            if signed and v >> (bits - 1):
                v -= 1 << bits
        self.v = v

    def is_sym(self):
        return not isinstance(self.v, int)

    def z(self):
        if isinstance(self.v, int):
            return z3.BitVecVal(self.v, self.bits)
        return self.v

    def __repr__(self):
        return "%s%s%d" % (self.v, "i" if self.signed else "u", self.bits)


class Agg:
    """struct / enum variant / tuple / array / closure / coroutine"""
    __slots__ = ("kind", "name", "variant", "fields", "extra")

    def __init__(self, kind, name, fields, variant=None, extra=None):
        self.kind, self.name, self.variant, self.fields, self.extra = kind, name, variant, fields, extra

    def __repr__(self):
        if self.kind == "enum":
            return "%s::%s%r" % (self.name, self.variant, self.fields if self.fields else "")
        return "%s%r" % (self.name or self.kind, self.fields)


class Ref:
    """reference / raw pointer: a cell plus a projection path inside its value"""
    __slots__ = ("cell", "path", "mut")

    def __init__(self, cell, path=(), mut=False):
        self.cell, self.path, self.mut = cell, tuple(path), mut

    def __repr__(self):
        return "&%s%s" % (self.cell.tag or "cell", list(self.path) if self.path else "")


class BoxV:
    """owning pointer (Box / Arc payload); `rc` is used by the Arc builtins"""
    __slots__ = ("cell", "kind", "rc")

    def __init__(self, cell, kind="Box", rc=None):
        self.cell, self.kind, self.rc = cell, kind, rc

    def __repr__(self):
        return "%s(%r)" % (self.kind, self.cell.value)


class FnItem:
    __slots__ = ("path",)

    def __init__(self, path):
        self.path = path

    def __repr__(self):
        return "fn " + self.path


class Opaque:
    """a value the interpreter only passes around (Span, Context, TypeId, ...)"""
    __slots__ = ("what", "data")

    def __init__(self, what, data=None):
        self.what, self.data = what, data

    def __repr__(self):
        return "<%s %r>" % (self.what, self.data) if self.data is not None else "<%s>" % self.what


class ModelObj:
    """base class of environment-model objects (channels, futures written in python).
    `type_name` is the Rust type it stands for; `drop(interp)` runs its Drop impl."""
    type_name = "model"

    def drop(self, it):
        pass


def mk_enum(name, variant, *fields):
    return Agg("enum", name, list(fields), variant)


def mk_some(v):
    return mk_enum("Option", "Some", v)


def mk_none():
    return mk_enum("Option", "None")


def mk_ok(v):
    return mk_enum("Result", "Ok", v)


def mk_err(v):
    return mk_enum("Result", "Err", v)


def mk_ready(v):
    return mk_enum("Poll", "Ready", v)


def mk_pending():
    return mk_enum("Poll", "Pending")


def u(v, bits=64):
    return IntV(v, bits, False)


def is_unit(v):
    return v == () or (isinstance(v, Agg) and v.kind == "tuple" and not v.fields)
