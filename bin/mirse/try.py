import sys, time, traceback
sys.path.insert(0, "/verif/bin")
from mirse import run, scenarios, explore
feats = sys.argv[3].split(",") if len(sys.argv) > 3 and sys.argv[3] else []
import os
prog, err, secs = run.load_program(os.environ.get("VERIF_REPO", "/repo"), os.environ.get("VERIF_WORK", "/verif/work"), feats)
if prog is None:
    print(err); sys.exit(2)
fn = getattr(scenarios, sys.argv[1]); P = sys.argv[2]
tier = sys.argv[4] if len(sys.argv) > 4 else "quick"
t0 = time.time()
viol, unsup, st = run.run_scenario(prog, fn, P, tier, 200000, 600, attribute_all=(len(sys.argv) > 5))
print("scenario %s P=%s: paths=%d sleep_pruned=%d infeasible=%d smt=%d steps=%d trunc=%s wall=%.1fs" % (sys.argv[1], P, st.paths, st.sleep_pruned, st.infeasible, st.smt_queries, st.steps, st.truncated, time.time() - t0))
for kid, e in (getattr(st, "known", None) or {}).items():
    print("KNOWN", kid, e["count"], e["message"][:300])
for v in viol[:2]:
    print("VIOLATION", v.prop, v.msg)
    for e in (v.detail or {}).get("events", [])[-45:]:
        print("    ", {k: x for k, x in e.items() if k != "now_raw"})
    print("   labels", (v.detail or {}).get("labels"))
for u in unsup[:3]:
    print("UNSUPPORTED", u)
