"""Entry point of the MIR engine for bin/check."""
import json
import os
import sys
import time
import traceback

from . import dump, explore, interp, mirparse, scenarios
from .values import Unsupported, Violation

_prog_cache = {}


def load_program(repo, work, features):
    key = tuple(sorted(features))
    corpus_file = None
    if "verif-corpus" in features:
        from . import corpus
        os.makedirs(os.path.join(work, "mir"), exist_ok=True)
        corpus_file = os.path.join(work, "mir", "corpus.rs")
        open(corpus_file, "w").write(corpus.source())
    d, src, secs, log = dump.dump(repo, work, list(features), corpus_file)
    if d is None:
        return None, "MIR dump failed (the overlay does not compile on nightly): " + " | ".join(l for l in log.split("\n") if l.startswith("error"))[:600], secs
    ck = (key, d)
    if ck in _prog_cache:
        return _prog_cache[ck], None, secs
    bodies, errs = mirparse.load_dir(d)
    if errs:
        return None, "MIR constructs outside the parser: %s" % dict(list(errs.items())[:3]), secs
    prog = interp.Program(bodies, src)
    prog.dump_dir = d
    prog.n_bodies = len(bodies)
    _prog_cache[ck] = prog
    return prog, None, secs


def jsonable(x):
    if isinstance(x, (str, int, float, bool)) or x is None:
        return x
    if isinstance(x, dict):
        return {str(k): jsonable(v) for k, v in x.items() if k != "now_raw"}
    if isinstance(x, (list, tuple)):
        return [jsonable(v) for v in x]
    return str(x)


FOREIGN = []


def run_scenario(prog, fn, P, tier, max_paths, budget, attribute_all=False):
    def path(ex):
        try:
            fn(prog, ex, P, tier)
        except Violation as v:
            if v.prop == P:
                raise
            if attribute_all:
                # this group states that any monitor firing in the scenario is a failure of P
                raise Violation(P, "[%s monitor] %s" % (v.prop, v.msg), v.detail)
            # a monitor of another property fired in a shared scenario: that is the other
            # property's alarm; this path is complete as far as P is concerned
            ex.event(ev="foreign_monitor", prop=v.prop, msg=v.msg[:160])
    workers = int(os.environ.get("VERIF_WORKERS", "14"))
    if workers <= 1:
        return explore.explore(path, max_paths=max_paths, time_budget=budget)
    return explore.explore_parallel(path, max_paths=max_paths, time_budget=budget, workers=workers)


_FD = {}


def _featdiff_worker(key):
    fn, prog, pid, tier, grp = _FD["fn"], _FD["progs"][key], _FD["pid"], _FD["tier"], _FD["grp"]
    proj = {}

    def path(ex):
        try:
            fn(prog, ex, pid, tier)
        except Violation:
            pass

    def on_path(ex):
        pr = getattr(ex, "projection", None)
        if pr is not None and pr not in proj:
            proj[pr] = [list(x) for x in ex.full]
    t0 = time.time()
    viol, unsup, st = explore.explore(path, max_paths=grp.get("max_paths", 60000), time_budget=grp.get("budget", 600), on_path=on_path, por=False)
    d = dict(st.__dict__)
    d["samples"] = []
    return key, proj, d, unsup, time.time() - t0


def run_featdiff_group(pid, grp, tier, out, repo, work):
    """C18: the set of observable behaviours (projection of every explored path, exploration
    WITHOUT partial-order reduction so that the explored sets are comparable) of each feature
    set must equal that of the default build"""
    sets = {}
    progs = {}
    notes = []
    fn = getattr(scenarios, grp["scenario"])
    obs = {}
    # 1. regenerate the MIR of every feature build (sequential: one cargo target directory)
    for feats in grp["feature_sets"]:
        key = ",".join(feats) or "default"
        prog, err, dsecs = load_program(repo, work, feats)
        name = "mirdiff:%s[%s]" % (grp["scenario"], key)
        ob = {"engine": "mir", "name": name, "features": feats, "bounds": grp.get("bounds", ""), "encodes": "set of per-component observable traces == the default build's"}
        obs[key] = ob
        if prog is None:
            out.inconclusive.append("%s: %s" % (name, err))
            ob["status"] = "inconclusive"
            continue
        progs[key] = prog
    # 2. explore the builds side by side (one forked process each; the programs are inherited)
    _FD["fn"], _FD["progs"], _FD["pid"], _FD["tier"], _FD["grp"] = fn, progs, pid, tier, grp
    keys = list(progs)
    import multiprocessing as mp
    if len(keys) > 1 and int(os.environ.get("VERIF_WORKERS", "14")) > 1:
        with mp.get_context("fork").Pool(min(len(keys), 8)) as pool:
            results = pool.map(_featdiff_worker, keys, chunksize=1)
    else:
        results = [_featdiff_worker(k) for k in keys]
    for key, proj, std, unsup, wall in results:
        ob = obs[key]
        feats = ob["features"]
        name = ob["name"]
        ob.update(paths=std["paths"], mir_steps=std["steps"], distinct_behaviours=len(proj))
        for kid, e in (std.get("known") or {}).items():
            rdir = os.path.join(work, "replays", pid)
            os.makedirs(rdir, exist_ok=True)
            rp = os.path.join(rdir, "%s_%s.json" % (kid, key.replace(",", "-")))
            json.dump({"property": pid, "known_finding": kid, "message": e["message"], "features": feats, "witness": jsonable(e["witness"]), "paths_showing_it": e["count"]}, open(rp, "w"), indent=1)
            ob.setdefault("known_findings", []).append({"id": kid, "paths": e["count"]})
            if hasattr(out, "known"):
                out.known.append({"id": kid, "name": name, "count": e["count"], "message": e["message"], "replay": rp})
        notes.append({"engine": "mir", "features": feats, "paths": std["paths"], "mir_steps": std["steps"], "smt_queries": std["smt_queries"], "distinct_behaviours": len(proj), "wall_s": round(wall, 1), "mir_bodies": progs[key].n_bodies})
        if unsup:
            ob["status"] = "inconclusive"
            out.inconclusive.append("%s: outside the interpreter: %s" % (name, unsup[0][0][:300]))
        elif std["truncated"]:
            ob["status"] = "inconclusive"
            out.inconclusive.append("%s: exploration budget exhausted after %d paths" % (name, std["paths"]))
        else:
            sets[key] = proj
            ob["status"] = "discharged"
            ob["sample_trace"] = jsonable(list(proj.keys())[:1])
    for feats in grp["feature_sets"]:
        out.obligations.append(obs[",".join(feats) or "default"])
    out.notes.extend(notes)
    base = sets.get("default")
    if base is None:
        return
    for key, proj in sets.items():
        if key == "default":
            continue
        extra = [p for p in proj if p not in base]
        missing = [p for p in base if p not in proj]
        # a default-build behaviour is excused if the very same schedule, run on the feature
        # build, ends in a LISTED known finding (the behaviour is lost to that finding)
        excused = []
        for p_ in list(missing):
            ex2 = explore.Exec([(d[0], d[1]) for d in base[p_]])
            try:
                fn(progs[key], ex2, pid, tier)
            except Exception:
                pass
            if ex2.known:
                excused.append(p_)
                missing.remove(p_)
        if excused:
            for ob in out.obligations:
                if ob["name"].endswith("[%s]" % key):
                    ob["behaviours_lost_to_known_finding"] = len(excused)
        if extra or missing:
            rdir = os.path.join(work, "replays", pid)
            os.makedirs(rdir, exist_ok=True)
            rp = os.path.join(rdir, "featdiff_%s.json" % key.replace(",", "-"))
            wit = extra[0] if extra else missing[0]
            json.dump({"property": pid, "features": key, "only_with_features": jsonable(extra[:2]), "only_with_default": jsonable(missing[:2]),
                       "decisions": (proj.get(wit) or base.get(wit)), "replay_cmd": "bin/check %s" % pid}, open(rp, "w"), indent=1)
            for ob in out.obligations:
                if ob["name"].endswith("[%s]" % key):
                    ob["status"] = "violated"
                    ob["replayed"] = True
            out.violations.append({"name": "mirdiff[%s]" % key, "replay": rp, "failed_checks": ["behaviour set differs from default features"],
                                   "detail": "features %s: %d behaviours only with the features, %d only without" % (key, len(extra), len(missing))})


def run_group(pid, grp, tier, out, repo, work):
    if grp.get("kind") == "featdiff":
        return run_featdiff_group(pid, grp, tier, out, repo, work)
    feats = grp.get("features", [])
    prog, err, dsecs = load_program(repo, work, feats)
    if prog is None and "verif-corpus" in feats and "MIR dump failed" in str(err):
        # the corpus consists of programs that are valid by the documented grammar.  If the crate
        # compiles without the corpus but not with it, the macros REJECT a valid program: that is a
        # violation of C19 (decided by rustc running the real macros; re-run once = the replay)
        base, berr, _ = load_program(repo, work, [f for f in feats if f != "verif-corpus"])
        if base is not None:
            prog2, err2, _ = load_program(repo, work, feats)
            if prog2 is None:
                rdir = os.path.join(work, "replays", pid)
                os.makedirs(rdir, exist_ok=True)
                rp = os.path.join(rdir, "corpus_rejected.json")
                json.dump({"property": pid, "message": "the macros reject a program of the valid corpus", "compiler_errors": err2,
                           "corpus": os.path.join(work, "mir", "corpus.rs"), "replay_cmd": "bin/check %s (compiles the corpus with the real macros)" % pid}, open(rp, "w"), indent=1)
                out.obligations.append({"engine": "mir", "name": "mir:macro_corpus[compile]", "features": feats, "status": "violated", "replayed": True,
                                        "bounds": "the generated corpus", "encodes": "every corpus program is accepted by the macros"})
                out.violations.append({"name": "mir:macro_corpus[compile]", "replay": rp, "failed_checks": ["corpus program rejected: " + str(err2)[:300]], "detail": str(err2)[:300]})
                return
    if prog is None:
        out.inconclusive.append(err)
        return
    tot_paths = tot_smt = tot_steps = 0
    xv_total = [0]
    smt_time = 0.0
    t0 = time.time()
    # the thorough tier = the quick bounds explored completely (must finish) + the deeper bounds
    # explored as far as the time budget allows (a truncated deep pass is reported as partial
    # coverage: "held on everything explored", never as a pass of the full deep bound)
    passes = [(sc, "quick", False) for sc in grp["scenarios"]] if tier == "quick" else \
             [(sc, t_, t_ == "thorough") for sc in grp["scenarios"] for t_ in ("quick", "thorough")]
    for sc, tier_run, allow_partial in passes:
        outer_tier, tier = tier, tier_run
        fn = getattr(scenarios, sc["fn"])
        name = "mir:%s[%s]%s" % (sc["fn"], ",".join(feats) or "default", "" if outer_tier == "quick" else ("@quick-bounds" if tier_run == "quick" else "@deep-bounds"))
        ob = {"engine": "mir", "name": name, "features": feats, "bounds": sc.get("bounds", ""), "encodes": sc.get("encodes", "")}
        maxp = sc.get("max_paths", {"quick": 30000, "thorough": 400000})[tier] if isinstance(sc.get("max_paths"), dict) else sc.get("max_paths", 30000 if tier == "quick" else 400000)
        budget = sc.get("budget", 600 if tier == "quick" else int(os.environ.get("VERIF_DEEP_BUDGET", "120")))
        try:
            viol, unsup, st = run_scenario(prog, fn, pid, tier, maxp, budget, attribute_all=grp.get("attribute_all", False) or sc.get("attribute_all", False))
        except Exception as e:      # an interpreter bug is never a verdict
            out.inconclusive.append("%s: interpreter error %r\n%s" % (name, e, traceback.format_exc()[-600:]))
            ob["status"] = "inconclusive"
            out.obligations.append(ob)
            tier = outer_tier
            continue
        tot_paths += st.paths
        tot_smt += st.smt_queries
        tot_steps += st.steps
        smt_time += st.smt_time
        ob["paths"] = st.paths
        ob["mir_steps"] = st.steps
        ob["smt_queries"] = st.smt_queries
        ob["sample_trace"] = jsonable(st.samples[:1])
        for kid, e in (getattr(st, "known", None) or {}).items():
            # a listed known finding was met: keep its witness as a replay file, report, go on
            rdir = os.path.join(work, "replays", pid)
            os.makedirs(rdir, exist_ok=True)
            rp = os.path.join(rdir, "%s_%s_%s.json" % (kid, sc["fn"], "-".join(feats) or "default"))
            json.dump({"property": e["property"], "known_finding": kid, "message": e["message"], "scenario": sc["fn"], "features": feats, "tier": tier,
                       "witness": jsonable(e["witness"]), "paths_showing_it": e["count"]}, open(rp, "w"), indent=1)
            ob.setdefault("known_findings", []).append({"id": kid, "paths": e["count"]})
            if hasattr(out, "known"):
                out.known.append({"id": kid, "name": name, "count": e["count"], "message": e["message"], "replay": rp})
        if viol:
            v = viol[0]
            rdir = os.path.join(work, "replays", pid)
            os.makedirs(rdir, exist_ok=True)
            rp = os.path.join(rdir, "%s_%s.json" % (sc["fn"], "-".join(feats) or "default"))
            json.dump({"property": v.prop, "message": v.msg, "scenario": sc["fn"], "features": feats, "tier": tier,
                       "witness": jsonable(v.detail), "replay_cmd": "python3-vt -m mirse.replay %s" % rp}, open(rp, "w"), indent=1)
            # replay: re-execute exactly this decision vector with the solver's input values
            ok, msg = replay(prog, fn, v, tier)
            ob["status"] = "violated" if ok else "inconclusive"
            ob["replayed"] = ok
            if ok:
                out.violations.append({"name": name, "replay": rp, "failed_checks": [v.msg], "detail": v.msg})
            else:
                out.inconclusive.append("%s: counterexample did not reproduce on replay (%s)" % (name, msg))
        elif unsup:
            ob["status"] = "inconclusive"
            out.inconclusive.append("%s: outside the interpreter: %s" % (name, unsup[0][0][:300]))
        elif st.truncated and allow_partial and st.paths > 0:
            ob["status"] = "discharged"
            ob["complete"] = False
            ob["note"] = "deep bounds: time budget (%ds) reached after %d complete paths, no violation on the explored part; the quick bounds of this scenario were explored completely in the pass before" % (budget, st.paths)
        elif st.truncated:
            ob["status"] = "inconclusive"
            out.inconclusive.append("%s: exploration budget exhausted after %d paths" % (name, st.paths))
        elif st.paths == 0:
            ob["status"] = "inconclusive"
            out.inconclusive.append("%s: no feasible path (vacuous)" % name)
        else:
            ob["status"] = "discharged"
            ob["complete"] = True
            if sc.get("xval", True) and not allow_partial and os.environ.get("VERIF_XVAL", "1") != "0":
                okn, mism, skipped, why = cross_validate(prog, fn, pid, tier, getattr(st, "sample_paths", [])[:8], work, feats, repo)
                ob["native_traces_compared"] = okn
                ob["native_trace_mismatches"] = len(mism)
                if why:
                    ob["native_note"] = why
                xv_total[0] += okn
                if mism:
                    ob["status"] = "inconclusive"
                    out.inconclusive.append("%s: interpreter and native execution disagree on a sampled path (at event %d: interpreter %r, native %r) - encoding/model defect, not a verdict" % (
                        name, mism[0]["at"], mism[0]["interpreter"], mism[0]["native"]))
                    rdir = os.path.join(work, "replays", pid)
                    os.makedirs(rdir, exist_ok=True)
                    json.dump(mism[0], open(os.path.join(rdir, "xval_mismatch_%s.json" % sc["fn"]), "w"), indent=1)
        out.obligations.append(ob)
        tier = outer_tier
    out.notes.append({"engine": "mir", "features": feats, "native_traces_compared": xv_total[0], "mir_bodies": prog.n_bodies, "dump_s": round(dsecs, 1), "paths": tot_paths,
                      "smt_queries": tot_smt, "smt_time_s": round(smt_time, 2), "mir_steps": tot_steps, "wall_s": round(time.time() - t0, 1)})


def cross_validate(prog, fn, P, tier, prefixes, work, feats, repo):
    """run sampled paths natively (compiled rsactor + Rust tokio model) and compare the traces"""
    from . import xval
    from .explore import Exec
    specs, expected = [], {}
    skipped = 0
    for n, pre in enumerate(prefixes):
        ex = Exec([(d[0], d[1]) for d in pre])
        try:
            fn(prog, ex, P, tier)
        except Exception:
            skipped += 1
            continue
        sim_ = getattr(ex, "sim", None)
        if sim_ is None or not xval.supported(ex, sim_):
            skipped += 1
            continue
        try:
            sp = xval.spec_of(ex, sim_)
            expected[str(n)] = xval.canon_events(ex, sim_)
            specs.append((str(n), sp))
        except Exception:
            skipped += 1
    if not specs:
        return 0, [], skipped, "no sampled path uses only natively replayable operations"
    binary, log = xval.build_native(work, feats, repo)
    if binary is None:
        return 0, [], skipped, "native build failed: " + " | ".join(l for l in log.split("\n") if l.startswith("error"))[:300]
    got, err = xval.run_native(binary, specs, work)
    if got is None:
        return 0, [], skipped, "native run produced no output: " + err
    mism = []
    ok = 0
    for i, spec in specs:
        d = xval.first_diff(expected[i], got.get(i, []))
        if d is None:
            ok += 1
        else:
            mism.append({"sample": i, "at": d[0], "interpreter": d[1], "native": d[2], "spec": spec})
    return ok, mism, skipped, ""


def replay(prog, fn, v, tier):
    """deterministic re-execution of the counterexample: same decision vector, symbolic inputs
    fixed to the values of the solver's model; the monitor must fire again"""
    import z3
    from .explore import Exec
    w = v.detail or {}
    ex = Exec([(d[0], d[1]) for d in w.get("decisions", [])])
    vals = w.get("inputs", {})
    orig_sym = ex.sym

    def sym(name, bits):
        x = orig_sym(name, bits)
        if name in vals:
            ex.solver.add(x == z3.BitVecVal(vals[name], bits))
        return x
    ex.sym = sym
    try:
        fn(prog, ex, v.prop, tier)
    except Violation as v2:
        return (v2.msg == v.msg or v2.prop == v.prop or v2.msg in v.msg), v2.msg
    except Exception as e:
        return False, "replay raised %r" % (e,)
    return False, "replay ran to the end without a violation"
