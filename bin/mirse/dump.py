"""Regenerate the MIR dump of the crate from /repo's current working tree."""
import hashlib, os, shutil, subprocess, time

V = "/verif"


def src_hash(repo):
    h = hashlib.sha256()
    for root, _d, files in sorted(os.walk(os.path.join(repo, "src"))):
        for f in sorted(files):
            p = os.path.join(root, f)
            h.update(p.encode())
            h.update(open(p, "rb").read())
    for p in (os.path.join(V, "bin", "mk_overlay.sh"),):
        h.update(open(p, "rb").read())
    # the environment models are compiled into the overlay as well
    for root, _d, files in sorted(os.walk(os.path.join(V, "models"))):
        if "/target" in root:
            continue
        for f in sorted(files):
            if f.endswith((".rs", ".toml")):
                h.update(open(os.path.join(root, f), "rb").read())
    return h.hexdigest()[:16]


def src_hash_derive(repo):
    h = hashlib.sha256()
    for root, _d, files in sorted(os.walk(os.path.join(repo, "rsactor-derive", "src"))):
        for f in sorted(files):
            h.update(open(os.path.join(root, f), "rb").read())
    return h.hexdigest()[:8]


def dump(repo, work, features, corpus_file=None):
    """-> (dump dir, overlay src dir, seconds, log).  Cached by a hash of /repo/src."""
    key = "%s_%s" % ("-".join(sorted(features)) or "default", src_hash(repo))
    if corpus_file:
        key += "_" + hashlib.sha256(open(corpus_file, "rb").read()).hexdigest()[:8] + "_" + src_hash_derive(repo)
    out = os.path.join(work, "mir", key)
    ov = os.path.join(work, "mir", "ov_" + key)
    if os.path.exists(os.path.join(out, ".complete")):
        return out, os.path.join(ov, "src"), 0.0, "cached"
    t0 = time.time()
    shutil.rmtree(out, ignore_errors=True)
    os.makedirs(out, exist_ok=True)
    # CARGO_INCREMENTAL=0: with incremental compilation rustc re-uses cached MIR and the passes
    # (and therefore the dumps) do not run for unchanged functions
    env = dict(os.environ, VERIF_REPO=repo, CARGO_NET_OFFLINE="true", CARGO_INCREMENTAL="0")
    if corpus_file:
        env["VERIF_CORPUS_FILE"] = corpus_file
    subprocess.run([os.path.join(V, "bin", "mk_overlay.sh"), ov], check=True, env=env, stdout=subprocess.PIPE, stderr=subprocess.STDOUT)
    # force rustc to run (an up-to-date crate would produce no dump)
    lib = os.path.join(ov, "src", "lib.rs")
    os.utime(lib, None)
    cmd = ["cargo", "+nightly", "rustc", "--offline", "--lib", "--target-dir", os.path.join(work, "mir", "target")]
    if features:
        cmd += ["--features", ",".join(features)]
    cmd += ["--", "-Zdump-mir=StateTransform", "-Zdump-mir-dir=" + out, "-C", "debug-assertions=off"]
    p = subprocess.run(cmd, cwd=ov, env=env, stdout=subprocess.PIPE, stderr=subprocess.STDOUT)
    log = p.stdout.decode("utf-8", "replace")
    if p.returncode != 0:
        return None, None, time.time() - t0, log
    # keep only the pre-lowering bodies
    for f in os.listdir(out):
        if not f.endswith("StateTransform.before.mir"):
            os.remove(os.path.join(out, f))
    if len([f for f in os.listdir(out) if f.endswith(".mir")]) < 20:
        return None, None, time.time() - t0, log + "\nerror: MIR dump produced no bodies"
    open(os.path.join(out, ".complete"), "w").write("ok")
    # prune old dumps
    mirroot = os.path.join(work, "mir")
    olds = sorted((os.path.getmtime(os.path.join(mirroot, d)), d) for d in os.listdir(mirroot) if d not in ("target",))
    for _t, d in olds[:-24]:
        shutil.rmtree(os.path.join(mirroot, d), ignore_errors=True)
    return out, os.path.join(ov, "src"), time.time() - t0, log
