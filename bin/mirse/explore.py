"""Path exploration: stateless depth-first search by re-execution with a decision prefix.

Every nondeterministic choice (scheduler pick, environment outcome) and every branch on a
symbolic value is a *decision*.  A path is identified by its decision vector; alternatives
found while running a path are queued as new prefixes.  Symbolic data (message ids, timeouts,
clock increments, ...) stay symbolic inside a path: feasibility of branches and validity of
assertions are decided by z3 under the path condition."""
import time

import z3

from .values import PathInfeasible, RustPanic, Unsupported, Violation


class SleepBlocked(Exception):
    """every enabled transition is in the sleep set: this interleaving is a permutation of
    independent steps of one that is explored elsewhere"""


def independent(f1, f2):
    if ("*",) in f1 or ("*",) in f2:
        return False
    for k, m in f1.items():
        m2 = f2.get(k)
        if m2 is not None and (m == "w" or m2 == "w"):
            return False
    return True


class Exec:
    def __init__(self, prefix, max_steps=400000, shared=None):
        self.prefix = list(prefix)       # list of (decision, meta)
        self.pos = 0
        self.decisions = []
        self.full = []
        self.shared = shared if shared is not None else {}
        self.sleep = {}
        self._cur = None
        self.labels = []
        self.alts = []
        self.solver = z3.Solver()
        self.path_conds = []
        self.syms = {}
        self.max_steps = max_steps
        self.smt_queries = 0
        self.smt_time = 0.0
        self.events = []          # monitor events (dicts), in order
        self.notes = []
        self.known = []           # known findings met on this path: (id, prop, msg)

    # ---- decisions -----------------------------------------------------------------
    def choose(self, n, label=""):
        if n <= 0:
            raise PathInfeasible()
        if self.pos < len(self.prefix):
            d = self.prefix[self.pos][0]
        else:
            d = 0
            for i in range(n - 1, 0, -1):
                self.alts.append(self.full + [(i, None)])
        self.decisions.append(d)
        self.full.append((d, None))
        self.labels.append((label, d, n))
        self.pos += 1
        return d

    def sched(self, names):
        """scheduler decision with sleep sets (partial-order reduction)"""
        n = len(names)
        key = tuple(self.decisions)
        if self.pos < len(self.prefix):
            d, meta = self.prefix[self.pos]
            meta = meta or []
        else:
            cands = [i for i in range(n) if names[i] not in self.sleep or getattr(self, "no_por", False)]
            if not cands:
                raise SleepBlocked()
            d, meta = cands[0], []
            for j in range(len(cands) - 1, 0, -1):
                self.alts.append(self.full + [(cands[j], cands[:j])])
        self.decisions.append(d)
        self.full.append((d, meta))
        self.labels.append(("sched:" + names[d], d, n))
        self.pos += 1
        self._cur = (key, d, names[d], meta)
        return d

    def sched_done(self, fp):
        key, d, name, meta = self._cur
        self.shared[(key, d)] = (name, dict(fp))
        new = {}
        pool = list(self.sleep.items()) + [self.shared[(key, j)] for j in meta if (key, j) in self.shared]
        for u, fpu in pool:
            if u != name and independent(fpu, fp):
                new[u] = fpu
        self.sleep = new

    def _sat(self, extra):
        t0 = time.time()
        self.solver.push()
        self.solver.add(extra)
        r = self.solver.check()
        self.solver.pop()
        self.smt_queries += 1
        self.smt_time += time.time() - t0
        if r == z3.unknown:
            raise Unsupported("solver returned unknown")
        return r == z3.sat

    def branch(self, conds):
        conds = [z3.simplify(c) if not isinstance(c, bool) else z3.BoolVal(c) for c in conds]
        if self.pos < len(self.prefix):
            d = self.prefix[self.pos][0]
        else:
            feas = [i for i, c in enumerate(conds) if not z3.is_false(c) and (z3.is_true(c) or self._sat(c))]
            if not feas:
                raise PathInfeasible()
            d = feas[0]
            for i in reversed(feas[1:]):
                self.alts.append(self.full + [(i, None)])
        self.decisions.append(d)
        self.full.append((d, None))
        self.labels.append(("branch", d, len(conds)))
        self.pos += 1
        self.solver.add(conds[d])
        self.path_conds.append(conds[d])
        return d

    def branch_bool(self, c):
        if isinstance(c, bool):
            return c
        c = z3.simplify(c)
        if z3.is_true(c):
            return True
        if z3.is_false(c):
            return False
        return self.branch([c, z3.Not(c)]) == 0

    def assume(self, c):
        if isinstance(c, bool):
            if not c:
                raise PathInfeasible()
            return
        self.solver.add(c)
        self.path_conds.append(c)

    # ---- symbolic inputs -------------------------------------------------------------
    def sym(self, name, bits):
        if name in self.syms:
            return self.syms[name]
        v = z3.BitVec(name, bits)
        self.syms[name] = v
        return v

    # ---- assertions ----------------------------------------------------------------
    def check(self, prop, cond, msg, panic=False, detail=None):
        """the property assertion: must hold for EVERY value of the symbolic inputs on this path"""
        if isinstance(cond, bool):
            if cond:
                return
            if panic:
                raise RustPanic(msg)
            raise Violation(prop, msg, self.witness(None, detail))
        cond = z3.simplify(cond)
        if z3.is_true(cond):
            return
        if panic:
            if not self.branch_bool(cond):
                raise RustPanic(msg)
            return
        t0 = time.time()
        self.solver.push()
        self.solver.add(z3.Not(cond))
        r = self.solver.check()
        self.smt_queries += 1
        model = self.solver.model() if r == z3.sat else None
        self.solver.pop()
        self.smt_time += time.time() - t0
        if r == z3.unknown:
            raise Unsupported("solver returned unknown on an assertion")
        if r == z3.sat:
            raise Violation(prop, msg, self.witness(model, detail))

    def known_finding(self, kid, prop, msg):
        """the monitor recognised the specific history of a finding.  If that finding is listed
        as open in /verif/known_findings.json the path goes on (other assertions are still
        checked) and the hit is reported as KNOWN-FINDING; otherwise it is a violation."""
        if kid in open_known_findings(prop):
            if not any(k[0] == kid for k in self.known):
                self.known.append((kid, prop, msg, _plain(self.witness(None))))
            self.event(ev="known_finding", id=kid, msg=msg[:200])
            return
        raise Violation(prop, msg, self.witness(None))

    def witness(self, model, detail=None):
        vals = {}
        if model is None:
            if self.solver.check() == z3.sat:
                model = self.solver.model()
        if model is not None:
            for n, v in self.syms.items():
                mv = model.eval(v, model_completion=True)
                vals[n] = mv.as_long()
        return {"decisions": [list(x) if x[1] is not None else [x[0], None] for x in self.full], "labels": [list(x) for x in self.labels], "inputs": vals,
                "events": list(self.events), "detail": detail}

    def event(self, **kw):
        self.events.append(kw)


_KF_CACHE = {}


def open_known_findings(prop):
    import json, os
    if "all" not in _KF_CACHE:
        try:
            d = json.load(open(os.path.join(os.path.dirname(os.path.dirname(os.path.dirname(os.path.abspath(__file__)))), "known_findings.json")))
        except Exception:
            d = {"findings": []}
        _KF_CACHE["all"] = d.get("findings", [])
    return {k["id"] for k in _KF_CACHE["all"] if k.get("property") == prop and k.get("status") == "open" and "id" in k}


def _merge_known(st, items):
    for kid, prop, msg, wit in items:
        e = st.known.setdefault(kid, {"property": prop, "count": 0, "message": msg, "witness": wit})
        e["count"] += 1


class Stats:
    known = None

    def __init__(self):
        self.known = {}
        self._init()

    def _init(self):
        self.paths = 0
        self.infeasible = 0
        self.smt_queries = 0
        self.smt_time = 0.0
        self.steps = 0
        self.truncated = False
        self.sleep_pruned = 0
        self.sample_paths = []
        self.samples = []
        self.max_decisions = 0


def explore(run_path, max_paths=20000, time_budget=None, max_steps=400000, on_path=None, fixed_inputs=None, por=True):
    """run_path(ex) executes one path.  Returns (violations, unsupported, stats)."""
    st = Stats()
    stack = [[]]
    shared = {}
    violations = []
    unsupported = []
    t0 = time.time()
    while stack:
        if st.paths >= max_paths or (time_budget and time.time() - t0 > time_budget):
            st.truncated = True
            break
        prefix = stack.pop()
        ex = Exec(prefix, max_steps, shared)
        if fixed_inputs:
            ex.fixed = fixed_inputs
        try:
            run_path(ex)
            st.paths += 1
            if st.paths % 97 == 1 and len(st.sample_paths) < 12:
                st.sample_paths.append(list(ex.full))
            if on_path:
                on_path(ex)
        except PathInfeasible:
            st.infeasible += 1
        except SleepBlocked:
            st.sleep_pruned += 1
        except Violation as v:
            st.paths += 1
            violations.append(v)
            if len(violations) >= 3:
                st.truncated = True
                break
        except Unsupported as u:
            unsupported.append((str(u), list(ex.full)))
            if len(unsupported) >= 3:
                st.truncated = True
                break
        st.smt_queries += ex.smt_queries
        st.smt_time += ex.smt_time
        st.steps += getattr(ex, "steps", 0)
        _merge_known(st, ex.known)
        st.max_decisions = max(st.max_decisions, len(ex.decisions))
        if len(st.samples) < 3 and ex.events:
            st.samples.append({"decisions": list(ex.decisions), "events": ex.events[:40]})
        stack.extend(ex.alts)
    st.wall = time.time() - t0
    return violations, unsupported, st


# ------------------------------------------------------------------ parallel exploration
_PAR = {}


def _plain(x):
    """make a witness picklable / printable: z3 terms and symbolic integers become strings"""
    if isinstance(x, dict):
        return {k: _plain(v) for k, v in x.items()}
    if isinstance(x, (list, tuple)):
        return [_plain(v) for v in x]
    if isinstance(x, z3.AstRef):
        return str(x)
    if hasattr(x, "bits") and hasattr(x, "v"):
        return x.v if isinstance(x.v, int) else str(x.v)
    if isinstance(x, (int, str, float, bool)) or x is None:
        return x
    return str(x)


def _worker(args):
    prefixes, max_paths, deadline, max_steps = args
    run_path = _PAR["run_path"]
    st = Stats()
    violations, unsupported = [], []
    shared = {}
    stack = list(prefixes)
    while stack:
        if st.paths >= max_paths or (deadline and time.time() > deadline):
            st.truncated = True
            break
        prefix = stack.pop()
        ex = Exec(prefix, max_steps, shared)
        try:
            run_path(ex)
            st.paths += 1
            if st.paths % 97 == 1 and len(st.sample_paths) < 2:
                st.sample_paths.append(list(ex.full))
        except PathInfeasible:
            st.infeasible += 1
        except SleepBlocked:
            st.sleep_pruned += 1
        except Violation as v:
            st.paths += 1
            violations.append((v.prop, v.msg, _plain(v.detail)))
            if len(violations) >= 2:
                st.truncated = True
                break
        except Unsupported as u:
            unsupported.append((str(u), list(ex.full)))
            if len(unsupported) >= 2:
                st.truncated = True
                break
        st.smt_queries += ex.smt_queries
        st.smt_time += ex.smt_time
        st.steps += getattr(ex, "steps", 0)
        _merge_known(st, ex.known)
        st.max_decisions = max(st.max_decisions, len(ex.decisions))
        if len(st.samples) < 1 and ex.events:
            st.samples.append({"decisions": [list(x) for x in ex.full], "events": [{k: str(v) for k, v in e.items() if k != "now_raw"} for e in ex.events[:40]]})
        stack.extend(ex.alts)
    return violations, unsupported, st.__dict__


def explore_parallel(run_path, max_paths=20000, time_budget=None, max_steps=400000, workers=12, seed_paths=400):
    """breadth-first until `seed_paths` open prefixes exist, then one subtree per worker process
    (fork: the parsed program is inherited).  Sleep-set footprints are per worker; a missing
    footprint only means less pruning."""
    import multiprocessing as mp
    st = Stats()
    violations, unsupported = [], []
    t0 = time.time()
    shared = {}
    from collections import deque
    queue = deque([[]])
    while queue and len(queue) < seed_paths:
        prefix = queue.popleft()
        ex = Exec(prefix, max_steps, shared)
        try:
            run_path(ex)
            st.paths += 1
            if st.paths % 37 == 1 and len(st.sample_paths) < 6:
                st.sample_paths.append(list(ex.full))
        except PathInfeasible:
            st.infeasible += 1
        except SleepBlocked:
            st.sleep_pruned += 1
        except Violation as v:
            st.paths += 1
            violations.append(v)
        except Unsupported as u:
            unsupported.append((str(u), list(ex.full)))
        st.smt_queries += ex.smt_queries
        st.smt_time += ex.smt_time
        st.steps += getattr(ex, "steps", 0)
        _merge_known(st, ex.known)
        if len(st.samples) < 2 and ex.events:
            st.samples.append({"decisions": [list(x) for x in ex.full], "events": [{k: str(v) for k, v in e.items() if k != "now_raw"} for e in ex.events[:40]]})
        # depth-first order inside alts is reversed; for seeding any order is fine
        queue.extend(ex.alts)
        if violations or unsupported or (time_budget and time.time() - t0 > time_budget):
            break
    if violations or unsupported or not queue:
        st.wall = time.time() - t0
        st.truncated = bool(queue) and bool(violations or unsupported)
        return violations, unsupported, st
    _PAR["run_path"] = run_path
    items = list(queue)
    chunks = [[x] for x in items]
    left = (t0 + time_budget) if time_budget else None
    ctx = mp.get_context("fork")
    with ctx.Pool(workers) as pool:
        res = list(pool.imap_unordered(_worker, [(c, max_paths, left, max_steps) for c in chunks], chunksize=1))
    for v, u, d in res:
        for prop, msg, detail in v:
            violations.append(Violation(prop, msg, detail))
        unsupported.extend(u)
        st.paths += d["paths"]
        st.infeasible += d["infeasible"]
        st.sleep_pruned += d["sleep_pruned"]
        st.smt_queries += d["smt_queries"]
        st.smt_time += d["smt_time"]
        st.steps += d["steps"]
        st.truncated = st.truncated or d["truncated"]
        st.max_decisions = max(st.max_decisions, d["max_decisions"])
        for kid, e in (d.get("known") or {}).items():
            cur = st.known.setdefault(kid, dict(e, count=0))
            cur["count"] += e["count"]
        if len(st.samples) < 3:
            st.samples.extend(d["samples"][:1])
        if len(st.sample_paths) < 12:
            st.sample_paths.extend(d.get("sample_paths", [])[:2])
    st.wall = time.time() - t0
    return violations, unsupported, st
