#!/usr/bin/env python3
"""Generate /verif/MANIFEST.json from bin/registry.py (+ not_applicable.json)."""
import json, os, sys
V = "/verif"
sys.path.insert(0, os.path.join(V, "bin"))
import registry
props = [json.loads(l)["id"] for l in open(os.path.join(V, "properties.jsonl"))]
na = json.load(open(os.path.join(V, "not_applicable.json")))
checks = []
for pid in props:
    if pid not in registry.CHECKS:
        continue
    c = registry.CHECKS[pid]
    checks.append({
        "property_id": pid,
        "quick_cmd": "bin/check %s --tier quick" % pid,
        "thorough_cmd": "bin/check %s --tier thorough" % pid,
        "evidence_file": "/verif/evidence/%s.json" % pid,
        "replay_cmd_template": "bin/replay %s {path}" % pid,
        "engine": "+".join(sorted({g["engine"] for g in c["groups"]})),
        "level_claimed": {"category": c["level"], "text": c["explanation"] + " Bounds: " + c["bounds"] + ". Outside the claim: " + c["outside"], "design_ref": c.get("design_ref", "DESIGN.md §4 " + pid)},
        "level_note": "; ".join(c.get("assumptions", []) + ["trusted: " + ", ".join(c.get("trusted_base", []))]),
        "technique": c["technique"],
    })
claimed = {c["property_id"] for c in checks}
man = {
    "version": 1,
    "setup_cmd": "bin/setup",
    "hooks": {"guard": "none (no source hooks: harnesses live in an overlay crate regenerated from /repo/src; cfg(kani) / feature verif-native exist only in the overlay)",
              "enable": "bin/mk_overlay.sh <dir> copies /repo/src and appends the harness module; nothing in /repo is changed",
              "baseline_off_cmd": "cd /repo && cargo test --workspace --no-fail-fast --offline",
              "source_commits": [], "add_only": True},
    "engines": [
        {"name": "E-KANI", "path": "bin/check, harness/, models/", "serves_properties": sorted(p for p in claimed if any(g["engine"] == "kani" for g in registry.CHECKS[p]["groups"])), "kind_free_text": "Kani 0.68 -> CBMC 6.11 -> cadical: bounded model checking of the real rsactor source against a tokio/tracing environment model"},
        {"name": "E-MIR", "path": "bin/mirse/", "serves_properties": sorted(p for p in claimed if any(g["engine"] == "mir" for g in registry.CHECKS[p]["groups"])), "kind_free_text": "symbolic execution of rustc MIR (dumped from /repo on every run) with z3"},
    ],
    "checks": checks,
    "notes": "exit codes: 0 held, 1 VIOLATION (replayed natively), 2 inconclusive (build failure/timeout/OOM/non-reproducing counterexample)",
    "not_applicable": [x for x in na if x["property_id"] not in claimed],
}
json.dump(man, open(os.path.join(V, "MANIFEST.json"), "w"), indent=1)
print("MANIFEST.json: %d checks, %d not_applicable" % (len(checks), len(man["not_applicable"])))
missing = [p for p in props if p not in claimed and p not in {x["property_id"] for x in man["not_applicable"]}]
if missing:
    print("WARNING: neither claimed nor not_applicable:", missing); sys.exit(1)
