#!/bin/bash
# mk_overlay.sh <dir> : regenerate the overlay crate <dir> from /repo's current working tree.
# The overlay is the real rsactor source (src/ copied verbatim) + the harness module appended
# as a private in-crate module, compiled against the tokio/tracing verification models.
set -euo pipefail
OV=$1
REPO=${VERIF_REPO:-/repo}
V=/verif
mkdir -p "$OV/src"
rsync -a --delete --exclude verif_h "$REPO/src/" "$OV/src/"
mkdir -p "$OV/src/verif_h"
rsync -a --delete "$V/harness/" "$OV/src/verif_h/"
cat >> "$OV/src/lib.rs" <<'EOT'

// ---- appended by /verif/bin/mk_overlay.sh (never present in /repo) ----
#[cfg(any(kani, feature = "verif-native"))]
#[allow(dead_code, unused_imports, unused_variables, unused_mut, static_mut_refs, clippy::all)]
mod verif_h;
EOT
cat >> "$OV/src/actor_ref.rs" <<'EOT'

// ---- appended by /verif/bin/mk_overlay.sh (never present in /repo) ----
#[cfg(any(kani, feature = "verif-native"))]
impl<T: Actor> ActorRef<T> {
    /// read-only view of the mailbox sender, so a harness can pre-fill a mailbox synchronously
    pub(crate) fn verif_sender(&self) -> &MailboxSender<T> {
        &self.sender
    }
}
EOT
cat > "$OV/Cargo.toml" <<EOT
[package]
name = "rsactor"
version = "0.14.0"
edition = "2021"

[workspace]

[features]
default = []
tracing = []
metrics = []
test-utils = []
deadlock-detection = []
verif-native = []

[dependencies]
tracing = { path = "$V/models/tracing" }
tokio = { path = "$V/models/tokio", features = ["macros", "rt-multi-thread", "sync", "time"] }
rsactor-derive = { version = "0.14", path = "$REPO/rsactor-derive" }
futures = "0.3"

[lints.rust]
unexpected_cfgs = { level = "allow" }
EOT
mkdir -p "$OV/.cargo"
printf '[net]\noffline = true\n' > "$OV/.cargo/config.toml"
cp "$REPO/Cargo.lock" "$OV/Cargo.lock" 2>/dev/null || true
