#!/bin/bash
# run every registered quick check on the current tree, sequentially; summary at the end
cd /verif
tier=${1:-quick}
fail=0
for p in $(python3 -c "import json;print(' '.join(c['property_id'] for c in json.load(open('/verif/MANIFEST.json'))['checks']))"); do
  s=$(date +%s)
  bin/check $p --tier $tier > work/logs/runall_$p.txt 2>&1; rc=$?
  echo "$p rc=$rc $(( $(date +%s) - s ))s $(tail -1 work/logs/runall_$p.txt | cut -c1-160)"
  [ $rc -ne 0 ] && fail=1
done
python3-vt - <<'PY'
import json, jsonschema, glob
s=json.load(open('/root/.vp/EVIDENCE.schema.json'))
bad=0
for f in sorted(glob.glob('/verif/evidence/*.json')):
    try: jsonschema.validate(json.load(open(f)), s)
    except Exception as e: bad+=1; print("INVALID", f, str(e)[:200])
print("evidence files valid:", bad==0)
PY
exit $fail
