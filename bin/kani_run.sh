#!/bin/bash
# kani_run.sh <overlay dir> <target dir> <harness> <timeout s> [extra kani args]
# (exploratory runner; the check driver has its own)
ov=$1; tgt=$2; h=$3; to=$4; shift 4
cd $ov
ulimit -v 16000000
( time timeout $to cargo kani -Z stubbing -Z restrict-vtable -Z unstable-options \
  --no-memory-safety-checks --no-overflow-checks --no-undefined-function-checks \
  --no-assertion-reach-checks --exact --harness $h --target-dir $tgt "$@" ) 2>&1
