#!/bin/bash
# confirm_seed.sh <worktree> <seed-id> <property> [demo-features]
# Re-verifies a seeded change in its scratch worktree (suite passes with it, demo fails with it,
# demo passes without it) and stores it under /verif/seeded/<seed-id>/.
set -u
WT=$1; ID=$2; PROP=$3; FEAT=${4:-}
OUT=/verif/seeded/$ID
mkdir -p $OUT
export CARGO_TARGET_DIR=$WT/target CARGO_NET_OFFLINE=true
cd $WT
git diff -- src rsactor-derive > $OUT/patch.diff
[ -s $OUT/patch.diff ] || cp patch.diff $OUT/patch.diff
cp tests/seeded_demo.rs $OUT/seeded_demo.rs 2>/dev/null
cp NOTES.md $OUT/NOTES.md 2>/dev/null
FARG=""; [ -n "$FEAT" ] && FARG="--features $FEAT"
# 1. existing suite with the change (demo moved aside)
mv tests/seeded_demo.rs /tmp/seeded_demo_$ID.rs
cargo test --workspace --offline > $OUT/suite_with_change.log 2>&1; S1=$?
grep -c "test result: ok" $OUT/suite_with_change.log > /dev/null
SUITE_FAIL=$(grep -E "test result: FAILED|error\[|error:" $OUT/suite_with_change.log | head -3)
mv /tmp/seeded_demo_$ID.rs tests/seeded_demo.rs
# 2. demo with the change
cargo test --offline $FARG --test seeded_demo -- --test-threads=1 > $OUT/demo_with_change.log 2>&1; D1=$?
# 3. demo without the change
git apply -R $OUT/patch.diff   # (not git stash: the stash is shared by all worktrees of a repository)
cargo test --offline $FARG --test seeded_demo -- --test-threads=1 > $OUT/demo_without_change.log 2>&1; D0=$?
git apply $OUT/patch.diff
python3 - <<PY
import json
json.dump({"seed": "$ID", "property": "$PROP", "suite_with_change_exit": $S1, "suite_failures": """$SUITE_FAIL""",
           "demo_with_change_exit": $D1, "demo_without_change_exit": $D0,
           "confirmed": ($S1 == 0 and $D1 != 0 and $D0 == 0),
           "ran": ["cargo test --workspace --offline (change applied, demo moved aside)", "cargo test --offline $FARG --test seeded_demo (change applied)", "same with the change reverted (git apply -R)"]},
          open("$OUT/confirm.json", "w"), indent=1)
PY
tail -3 $OUT/suite_with_change.log > /dev/null
cat $OUT/confirm.json
