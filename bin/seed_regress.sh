#!/bin/bash
# seed_regress.sh [-j N] [seed-id ...] : development regression over /verif/seeded.
# For each seed: scratch worktree of /repo under /tmp + the patch, the property's check run
# against that tree (own work / evidence dirs: /repo and /verif/evidence are not touched), verdict
# stored in seeded/<id>/detect.json, worktree and scratch dirs removed.
J=3
if [ "$1" = "-j" ]; then J=$2; shift 2; fi
cd /verif
seeds=("$@")
[ ${#seeds[@]} -eq 0 ] && seeds=($(ls seeded))
one() {
  sid=$1
  prop=$(python3 -c "import json;print(json.load(open('/verif/seeded/$sid/meta.json'))['breaks_property'])")
  wt=/tmp/sr_wt_$sid
  git -C /repo worktree remove --force $wt >/dev/null 2>&1; rm -rf $wt
  git -C /repo worktree add -q --detach $wt HEAD || { echo "$sid worktree failed"; return; }
  if ! git -C $wt apply /verif/seeded/$sid/patch.diff; then echo "$sid patch does not apply"; git -C /repo worktree remove --force $wt; return; fi
  s=$(date +%s)
  out=$(TIER=${TIER:-quick} /verif/bin/mutant_eval.sh $wt sr_$sid $prop)
  rc=$(echo "$out" | sed -n 's/.* rc=\([0-9]*\) .*/\1/p' | head -1)
  python3 - "$sid" "$prop" "$rc" "$out" "$(( $(date +%s) - s ))" <<'PY'
import json, sys, time
sid, prop, rc, out, secs = sys.argv[1:6]
json.dump({"seed": sid, "property": prop, "check_exit": int(rc) if rc.isdigit() else None,
           "verdict": {"1": "detected (VIOLATION, replayed)", "0": "NOT detected", "2": "inconclusive"}.get(rc, "error"),
           "summary": out[-600:], "seconds": int(secs), "tier": "quick", "when": time.strftime("%Y-%m-%d %H:%M")},
          open("/verif/seeded/%s/detect.json" % sid, "w"), indent=1)
PY
  echo "$sid $prop rc=$rc"
  git -C /repo worktree remove --force $wt; rm -rf /tmp/vw_sr_$sid
}
export -f one
printf "%s\n" "${seeds[@]}" | xargs -P $J -I{} bash -c 'one {}'
git -C /repo worktree prune
