#!/bin/bash
# mutant_eval.sh <tree> <name> <prop>... : development helper - run checks against a scratch tree
# (a worktree of /repo carrying a seeded change) with their own work/evidence dirs, so neither
# /repo nor /verif/evidence is touched.  Output: /tmp/vw_<name>/<prop>.out
T=$1; N=$2; shift 2
W=/tmp/vw_$N; mkdir -p $W/ev
for p in "$@"; do
  VERIF_REPO=$T VERIF_WORK=$W VERIF_EVIDENCE_DIR=$W/ev /verif/bin/check $p --tier ${TIER:-quick} > $W/$p.out 2>&1
  echo "$N $p rc=$? $(grep -E '^(VIOLATION|INCONCLUSIVE|OK|KNOWN)' $W/$p.out | head -3 | tr '\n' '|' | cut -c1-300)"
done
