"""Registry of checks: property id -> engines, harnesses, bounds, claimed level.
MANIFEST.json is generated from this file by bin/gen_manifest.py."""

H = "verif_h::"
STUBS = ["std::panic::catch_unwind -> call-through (Kani 0.68 cannot encode the intrinsic; a panic aborts the path under Kani anyway)",
         "std::fmt::format -> empty String (message texts are never asserted)"]
ENVMODEL = ["tokio is replaced by the verification model /verif/models/tokio (mpsc: permits + FIFO waiters + cancel-safe send; oneshot; virtual clock; select! is tokio's own macro with a symbolic start branch when not `biased`)",
            "tracing is replaced by a no-op model (/verif/models/tracing)",
            "Kani/CBMC: single-threaded, no unwinding (a panic ends the path), memory-safety/overflow checks off, unwinding assertions ON (a too-small loop bound is a failure, not a truncation)"]


def k(name, bounds="", encodes=""):
    return {"name": H + name, "bounds": bounds, "encodes": encodes}


CHECKS = {}

CHECKS["C05"] = {
    "title": "ActorResult truthfully reports how the actor ended",
    "level": "model_checking",
    "technique": "Kani/CBMC bounded model checking of the real accessor code over a fully symbolic ActorResult value",
    "functions": ["ActorResult::{is_completed,is_failed,was_killed,stopped_normally,is_startup_failed,is_runtime_failed,is_cleanup_failed,is_stop_failed,actor,has_actor,error,into_actor,into_error,to_result}", "From<ActorResult<T>> for (Option<T>, Option<T::Error>)"],
    "bounds": "value space of ActorResult<T1> with T1{seen:u8}, Error=u8: variant x killed x 4 phases x actor Some/None x 2^16 payload values, all symbolic (complete for this instantiation; no loops)",
    "outside": "other instantiations of the generic parameter T; Debug formatting",
    "assumptions": STUBS + ENVMODEL[2:],
    "trusted_base": ["Kani 0.68 / CBMC 6.11 / cadical", "rustc MIR -> goto translation"],
    "explanation": "SAT-decided: for every field valuation each accessor equals the specification computed from the fields by the harness",
    "groups": [
        {"engine": "kani", "features": [], "timeout": 120, "harnesses": [
            k("c05::c05_accessor_laws", "all field values symbolic", "11 predicates/accessors vs. field-level spec"),
            k("c05::c05_conversions", "all field values symbolic; 4 conversions chosen symbolically", "into_actor/into_error/to_result/From tuple"),
        ]},
    ],
}

CHECKS["C06"] = {
    "title": "kill() pre-empts the mailbox and never blocks",
    "level": "model_checking",
    "technique": "Kani/CBMC bounded model checking of the real ActorRef::kill against a symbolic termination-channel state",
    "functions": ["ActorRef::kill", "ActorRef::clone"],
    "bounds": "mailbox (cap,fill) in {(1,0),(1,1),(3,1),(3,3)} enumerated; termination channel state in {empty, signal pending, receiver closed, receiver dropped, mailbox closed} symbolic; 1..3 kills through symbolically chosen clones",
    "outside": "pre-emption of queued messages by the actor loop is decided by the MIR engine (see groups); real threads",
    "assumptions": STUBS + ENVMODEL,
    "trusted_base": ["Kani 0.68 / CBMC 6.11 / cadical", "tokio model"],
    "explanation": "kill() is synchronous; the harness asserts Ok(()) for every state and that exactly one Terminate is pending afterwards on a live actor, none on a dead one, and that the mailbox is untouched",
    "groups": [
        {"engine": "kani", "features": [], "timeout": 200, "harnesses": [
            k("c06::c06_kill_mailbox_empty", "cap=1 fill=0; state, #kills, handle symbolic"),
            k("c06::c06_kill_mailbox_full_cap1", "cap=1 fill=1"),
            k("c06::c06_kill_mailbox_part_cap3", "cap=3 fill=1"),
            k("c06::c06_kill_mailbox_full_cap3", "cap=3 fill=3"),
        ]},
    ],
}
