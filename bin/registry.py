"""Registry of checks: property id -> engines, harnesses, bounds, claimed level.
MANIFEST.json is generated from this file by bin/gen_manifest.py."""

H = "verif_h::"
STUBS = ["std::panic::catch_unwind -> call-through (Kani 0.68 cannot encode the intrinsic; a panic aborts the path under Kani anyway)",
         "std::fmt::format -> empty String (message texts are never asserted)"]
ENVMODEL = ["tokio is replaced by the verification model /verif/models/tokio (mpsc: permits + FIFO waiters + cancel-safe send; oneshot; virtual clock; select! is tokio's own macro with a symbolic start branch when not `biased`)",
            "tracing is replaced by a no-op model (/verif/models/tracing)",
            "Kani/CBMC: single-threaded, no unwinding (a panic ends the path), memory-safety/overflow checks off, unwinding assertions ON (a too-small loop bound is a failure, not a truncation)"]


def k(name, bounds="", encodes=""):
    return {"name": H + name, "bounds": bounds, "encodes": encodes}


CHECKS = {}

CHECKS["C05"] = {
    "title": "ActorResult truthfully reports how the actor ended",
    "level": "model_checking",
    "technique": "Kani/CBMC bounded model checking of the real accessor code over a fully symbolic ActorResult value",
    "functions": ["ActorResult::{is_completed,is_failed,was_killed,stopped_normally,is_startup_failed,is_runtime_failed,is_cleanup_failed,is_stop_failed,actor,has_actor,error,into_actor,into_error,to_result}", "From<ActorResult<T>> for (Option<T>, Option<T::Error>)"],
    "bounds": "value space of ActorResult<T1> with T1{seen:u8}, Error=u8: variant x killed x 4 phases x actor Some/None x 2^16 payload values, all symbolic (complete for this instantiation; no loops)",
    "outside": "other instantiations of the generic parameter T; Debug formatting",
    "assumptions": STUBS + ENVMODEL[2:],
    "trusted_base": ["Kani 0.68 / CBMC 6.11 / cadical", "rustc MIR -> goto translation"],
    "explanation": "SAT-decided: for every field valuation each accessor equals the specification computed from the fields by the harness",
    "groups": [
        {"engine": "kani", "features": [], "timeout": 120, "harnesses": [
            k("c05::c05_accessor_laws", "all field values symbolic", "11 predicates/accessors vs. field-level spec"),
            k("c05::c05_conversions", "all field values symbolic; 4 conversions chosen symbolically", "into_actor/into_error/to_result/From tuple"),
        ]},
    ],
}

CHECKS["C06"] = {
    "title": "kill() pre-empts the mailbox and never blocks",
    "level": "model_checking",
    "technique": "Kani/CBMC bounded model checking of the real ActorRef::kill against a symbolic termination-channel state",
    "functions": ["ActorRef::kill", "ActorRef::clone"],
    "bounds": "mailbox (cap,fill) in {(1,0),(1,1),(3,1),(3,3)} enumerated; termination channel state in {empty, signal pending, receiver closed, receiver dropped, mailbox closed} symbolic; 1..3 kills through symbolically chosen clones",
    "outside": "pre-emption of queued messages by the actor loop is decided by the MIR engine (see groups); real threads",
    "assumptions": STUBS + ENVMODEL,
    "trusted_base": ["Kani 0.68 / CBMC 6.11 / cadical", "tokio model"],
    "explanation": "kill() is synchronous; the harness asserts Ok(()) for every state and that exactly one Terminate is pending afterwards on a live actor, none on a dead one, and that the mailbox is untouched",
    "groups": [
        {"engine": "kani", "features": [], "timeout": 200, "harnesses": [
            k("c06::c06_kill_mailbox_empty", "cap=1 fill=0; state, #kills, handle symbolic"),
            k("c06::c06_kill_mailbox_full_cap1", "cap=1 fill=1"),
            k("c06::c06_kill_mailbox_part_cap3", "cap=3 fill=1"),
            k("c06::c06_kill_mailbox_full_cap3", "cap=3 fill=3"),
        ]},
    ],
}


# ======================================================================================
# E-MIR checks
# ======================================================================================
MIRENV = ["the crate's MIR (pre-coroutine-lowering bodies, dumped by `cargo +nightly rustc -Zdump-mir=StateTransform` from an overlay of /repo/src on every run) is executed by the symbolic interpreter bin/mirse: real control flow, real drop elaboration, real unwind edges",
          "tokio is a python model with the same rules as /verif/models/tokio (mpsc permits + FIFO waiters + cancel-safe send, oneshot, virtual clock, select! = tokio's real macro, interpreted)",
          "std functions called by the crate are python builtins (Option/Result/Box/Arc/atomics/OnceLock/Mutex/HashMap/Duration/Instant); tracing is a no-op",
          "the user actor is scripted: hook outcomes (Ok/Err/panic), number of await points per hook, handler actions are enumerated scenario parameters",
          "schedules: every interleaving of task polls up to quiescence, modulo sleep-set partial-order reduction over model-object footprints; a task is offered only if an object it waits on changed",
          "single-threaded interleaving semantics (one poll is atomic); real OS threads and tokio's work stealing are outside"]
MIRTRUST = ["bin/mirse interpreter + builtins (validated by replay and by the Kani harnesses of the same functions)", "python tokio model", "z3 4.x", "rustc nightly MIR dump"]


def m(fn, bounds="", encodes="", **kw):
    d = {"fn": fn, "bounds": bounds, "encodes": encodes}
    d.update(kw)
    return d


LIFE_FUNCS = ["actor::run_actor_lifecycle (async body + the select! poll_fn closure)", "spawn_with_mailbox_capacity", "ActorRef::{tell,ask,tell_with_timeout,ask_with_timeout,stop,kill,clone,downgrade,identity}", "ActorWeak::{upgrade,is_alive}",
              "<T as PayloadHandler<A>>::handle_message (+ its async block)", "dead_letter::record"]


def mircheck(pid, title, technique, scen, bounds, outside, explanation, level="model_checking", feats=(), extra_groups=()):
    CHECKS[pid] = {
        "title": title, "level": level, "technique": technique, "functions": LIFE_FUNCS, "bounds": bounds, "outside": outside,
        "assumptions": MIRENV, "trusted_base": MIRTRUST, "explanation": explanation,
        "groups": list(extra_groups) + [{"engine": "mir", "features": list(feats), "scenarios": scen}],
    }


SYMEX = "symbolic execution of the crate's MIR (z3-decided path conditions and assertions) under an exhaustively explored symbolic scheduler"
B_SENDERS = "quick: 6 configurations (capacity 1-2, handler 0-1 await points, ending by last-drop or stop()), 2 senders + stopper, 3 messages; thorough: 11 configurations, capacity 1-3, up to 4 messages; all interleavings to quiescence"
B_ENDINGS = "14 termination causes (stop, kill, last drop, on_start Err/panic, on_run Err/panic, handler panic, on_stop Err/panic after stop, on_run Err + on_stop Err, kill + on_stop Err, slow on_start + kill/stop) x 2 concurrent askers (+ a late prober) x capacity 1-2; all interleavings to quiescence"

mircheck("C01", "Accepted messages are handled exactly once; rejected ones never", SYMEX,
         [m("senders", B_SENDERS, "exactly-once / never-after-rejection / nothing accepted before stop or last drop is lost"),
          m("drop_immediately", "references dropped immediately after send returns, capacity 1-2, slow handler, 2 senders, 3 messages"),
          m("timeouts", "tell_with_timeout / ask_with_timeout, symbolic timeout <= 6 ns, <= 2 symbolic clock advances <= 4 ns, mailbox free/full/dying", "a timed-out tell is withdrawn and never handled")],
         B_SENDERS, "more than 3 senders / 4 messages; real threads; blocking variants (see C17)",
         "for every explored schedule the monitor compares mailbox acceptance events, handler entries and client results")
mircheck("C02", "Handling order respects mailbox acceptance order", SYMEX,
         [m("senders", B_SENDERS, "handled sequence = acceptance sequence; completed-before-started sends keep their order; stop() marker position"),
          m("drop_immediately", "capacity 1-2 with senders queued for the slot")],
         B_SENDERS, "blocking and type-erased variants are covered by C16/C17 only as far as those are claimed",
         "handling order is compared with acceptance order and with the real-time order of completed sends on every explored schedule")
mircheck("C03", "ask: the reply belongs to the request, and ask never hangs on a dead actor", SYMEX,
         [m("endings", B_ENDINGS, "Ok(v) => v = f(own id) and own handler completed; no ask pending at quiescence; asks after the end fail"),
          m("senders", B_SENDERS)],
         B_ENDINGS, "reply types other than the scripted u8; ask_join is checked at function level by Kani (c03 harnesses) only",
         "quiescence = no task can make progress: an ask still pending there is a hang")
mircheck("C04", "Lifecycle hooks run in order", SYMEX,
         [m("endings", B_ENDINGS, "on_start first and once; nothing before it succeeds; on_stop at most once, last, exactly for stop/kill/unref/on_run-Err; killed flag iff a Terminate was consumed"),
          m("kill_preempts", "kill at any moment, mailbox up to 3 entries, handler/on_run possibly suspended"),
          m("idle_handler", "6 on_run scripts x capacity 1-2")],
         B_ENDINGS, "panics are raised at hook completion points (MIR unwind edges are followed for real); panics in the middle of a hook body's own code are the user's code",
         "hook enter/poll/exit events are checked against the grammar on every explored schedule")
mircheck("C05", "ActorResult truthfully reports how the actor ended", SYMEX,
         [m("endings", B_ENDINGS, "variant, phase, killed, the very error value, actor presence and the count of completed hooks vs. the trace"),
          m("kill_preempts", "kill + queued work")],
         B_ENDINGS, "accessor laws are in the Kani group", "JoinHandle output vs. an oracle computed from the hook trace of the same run",
         extra_groups=CHECKS["C05"]["groups"])
CHECKS["C05"]["functions"] = LIFE_FUNCS + ["ActorResult accessors (Kani)"]
CHECKS["C05"]["technique"] = "Kani/CBMC (accessor laws over a symbolic value) + " + SYMEX
mircheck("C06", "kill() pre-empts the mailbox and never blocks", SYMEX,
         [m("kill_preempts", "mailbox cap 3 holding up to 3 messages (one ask), 1-2 kill() calls at any moment, handler with 0-1 await points, on_run yielding or not", "<= 1 handler starts after kill() returned; on_stop(true); killed=true; leftovers never handled, their asks fail"),
          m("endings", B_ENDINGS)],
         "see scenarios", "real threads (the '<= 1 further handler' slack exists for them; the interleaving model gives 0)",
         "biased select order is decided on the interpreted select! closure: removing `biased` makes the start branch a scheduler decision",
         extra_groups=CHECKS["C06"]["groups"])
CHECKS["C06"]["technique"] = "Kani/CBMC (kill() against symbolic channel state) + " + SYMEX
mircheck("C07", "Actors end when stopped or unreferenced, and only then", SYMEX,
         [m("ref_histories", "5 histories of clone/drop/downgrade/upgrade (weak-only, upgrade keeps alive, last reference inside queued envelopes, clone chain, one reference kept) x handler duration", "ended <=> stop/kill/error or no strong reference; kept reference => still serving"),
          m("senders", B_SENDERS), m("idle_handler", "on_run Ok(false) must not end the actor")],
         "see scenarios", "trait-object handles (C16)", "task state at quiescence vs. the model's strong-sender count and the causes seen in the trace")
mircheck("C08", "on_run is an idle handler", SYMEX,
         [m("idle_handler", "on_run scripts {T1 F, T1 T1 F, F, T1 Err, F with 1 await, T0 F} x capacity 1-2 x a sender issuing tell, yield, tell, ask", "no on_run body poll while a message waits or a kill is pending; silence after Ok(false); Err => on_stop(false) + Failed"),
          m("kill_preempts", "on_run suspended when the kill arrives")],
         "see scenarios", "on_run futures with more than 1 await point", "every poll of the scripted on_run future records the mailbox length and kill flag at that instant")
mircheck("C09", "Mailbox capacity is a hard bound with waiting back-pressure", SYMEX,
         [m("senders", B_SENDERS, "channel created with the requested capacity; occupancy <= capacity (stop marker included); nobody waits while a slot is free; no Err(Send) on a live actor"),
          m("drop_immediately", "capacity 1-2, 3 senders' messages"),
          m("capacity_config", "spawn_with_mailbox_capacity with a SYMBOLIC 64-bit capacity (data flow into mpsc::channel decided by z3 for every value); capacity 0; spawn() default 32; set_default_mailbox_capacity(0 / first in {1,2,3,40} / second in {1,7} / 0) then spawn()", "requested buffer == argument for all values; terminate channel == 1; 0 rejected before any channel exists; configured-once semantics")],
         "capacities 1-3 for occupancy; every 64-bit value for the data flow", "the OnceLock under real thread concurrency", "occupancy statistics of the model channel + pending operations at quiescence")
mircheck("C10", "Timeouts are exact", SYMEX,
         [m("timeouts", "op in {tell_with_timeout, ask_with_timeout}; mailbox free/full/dying (kill); handler 0 or 2 await points; timeout d symbolic in [0,6] ns; up to 2 (thorough 3) clock advances, each symbolic in [0,4] ns, at any point of the schedule", "Err(Timeout) => now >= start+d (valid for all d,dt); pending at quiescence => now < start+d; the Duration given to the timer is the caller's")],
         "see scenario", "blocking variants with timeout (C17); the real timer wheel", "the deadline inequalities are z3 validity queries over the symbolic timeout and clock increments")
mircheck("C12", "A failing actor fails alone", SYMEX,
         [m("failing_alone", "actors A and B holding references to each other; A panics in on_start / a handler / on_run / on_stop or fails in on_run; B's handler asks A; a client asks B", "A's JoinHandle reports the panic; B passes the C01/C02/C04/C05 monitors, keeps answering and completes normally; distinct ids")],
         "see scenario", "poisoning of the wait-for graph lock is checked under C14/C15's feature set only", "real MIR unwind edges are followed; the dropped-future path of a panicked task is executed")
mircheck("C13", "Exactly one dead letter per failed delivery, none per success", SYMEX,
         [m("endings", B_ENDINGS, "multiset of (operation label, reason, actor id) recorded by dead_letter::record = multiset predicted from the returned errors"),
          m("timeouts", "timeout / actor-stopped / reply-dropped outcomes of the *_with_timeout wrappers"),
          m("senders", B_SENDERS)],
         "see scenarios", "the message type name inside the record (checked by the Kani harness c13); blocking variants (C17); the counter under real thread concurrency",
         "calls of the real dead_letter::record are observed with their arguments")

mircheck("C11", "Identity is unique and stable; is_alive / upgrade tell the truth", SYMEX,
         [m("identity", "3 actors; actor A ended by stop / kill / last drop / on_run Err / handler panic at any moment; a sampler task calling identity() through 10 kinds of handle (clone, weak, weak clone, upgraded, Box<dyn TellHandler/AskHandler/ActorControl> and their as_control / downgrade), is_alive() (asked of the ActorRef, of a Box<dyn ActorControl> made from it and of its clone_boxed()), ActorWeak::is_alive(), upgrade() and sends at arbitrary points", "same Identity everywhere; is_alive true before any cause, false after the JoinHandle resolved; upgrade/weak is_alive <=> strong senders exist; sends after the end fail"),
          m("id_alloc", "2 threads (separate thread-local storage) x K consecutive real spawns each (K = largest prefix <= 70, thorough 140, whose number of interleavings stays <= 3000; K=6 for one atomic operation per spawn, K=70 when the global is touched once per block); every atomic operation on a static recorded symbolically; EVERY merge of the two threads' atomic operations x symbolic initial value (< 2^62) of each static", "z3 refutes 'two of the 2K ids are equal' under the recorded path conditions")],
         "see scenarios", "more than 2 concurrent spawners; more than K spawns per thread; statics at or above 2^62 (wrap-around); atomic operations other than load/store/fetch_add/fetch_sub on the id state (reported inconclusive)", "trace monitors + a z3 interleaving argument over the recorded atomic operations")
mircheck("C14", "Deadlock detection is complete for sequential ask cycles", SYMEX,
         [m("deadlock_cycles", "self-ask from a handler / from on_run, 2-cycle (ask and ask_with_timeout), 2-cycle closed from on_stop, 3-cycle; every creation order of the edges the scheduler allows", "the closing ask panics with 'Deadlock detected'; no hook is left waiting at quiescence; every client op completes; graph empty"),
          m("has_path_fn", "every functional graph over the key universe {1, 2, 65} (thorough {1, 2, 65, 130}: ids that collide modulo 64 / 128) plus a sink: presence and target of each key symbolic, from/to symbolic", "has_path == bounded reachability, as a z3 validity query on every loop path")],
         "cycle length <= 3; graph walk over <= 4 keys", "cycles through type-erased ask (C16 covers the forwarding); real threads", "the feature's real code (task-local scope, mutex, HashMap walk, WaitForGuard) is interpreted; the panic follows the real unwind edges",
         feats=("deadlock-detection",))
mircheck("C15", "Deadlock detection is sound and leaves no residue", SYMEX,
         [m("deadlock_sound", "5 acyclic-in-time patterns over a cyclic topology: A asks B then B asks A; ask that times out then reverse ask; callee panics then reverse ask; fan-out; non-actor callers only; all schedules", "no deadlock panic; once every ask has finished the wait-for graph (read from the crate's static) is empty"),
          m("deadlock_cycles", "real cycles: after the deliberate panic and its unwinding the graph is empty")],
         "2 actors, <= 3 asks", "cancellation by dropping an ask future other than through timeout/death", "the wait-for graph is read directly from the interpreted static WAIT_FOR (no hook in /repo needed)",
         feats=("deadlock-detection",))
mircheck("C16", "Type-erased handles are transparent", SYMEX,
         [m("erased", "4 op sequences (tell+ask / stop / kill / timeouts) x every operation routed through one of {direct, From<&ActorRef>, From<ActorRef>, clone_boxed, downgrade+upgrade} x control ops through ActorControl handles; all schedules", "the C01/C02/C03/C04/C13 monitors hold through erased handles; timers get the caller's durations; stop/kill keep their meaning; temporaries do not leak references"),
          m("erased_lifetime", "reference converted by value into Box<dyn TellHandler|AskHandler|ActorControl>, kept or downgraded to the weak trait object", "strong trait object keeps the actor alive and serving, weak one does not"),
          m("identity", "identity through erased handles")],
         "see scenarios", "blocking_* forwarders (C17); Debug output", "the forwarding impls are executed from MIR through dynamic dispatch on the runtime type")
mircheck("C20", "Metrics count what happened", SYMEX,
         [m("metrics_scn", "actor kept / stopped / killed; 3 messages, handler with one await; <= 2 clock advances of symbolic length <= 5 ns at any point", "message_count = handler entries (stop marker, leftovers excluded); avg <= max; snapshot = accessors; max >= any advance that happened inside a completed handler (z3); same values through a weak-upgraded handle")],
         "see scenario", "wall-clock time (virtual clock); concurrent readers on real threads", "the real MetricsCollector / MessageProcessingGuard code is interpreted; Instant is the virtual clock",
         feats=("metrics",))

CHECKS["C20"]["groups"][-1]["scenarios"].append(m("abandoned", "asks whose caller gives up (timeout / dropped future) before or while the handler runs, tells withdrawn while waiting", "message_count = handlers entered, also for requests nobody waits for any more"))
CHECKS["C11"]["groups"][-1]["scenarios"].append(m("id_reuse", "an actor ends by one of 7 causes (incl. failed / panicking on_start), then two more actors are spawned", "ids are never reused over time; kept strong and weak handles of the ended actor keep its id"))
CHECKS["C15"]["groups"][-1]["scenarios"].append(m("deadlock_reply_window", "the callee answers and goes on to a message queued behind the ask whose handler asks the asker back (before or after the asker collected the reply); a hook with two asks in flight at once (join!) whose later-registered ask is answered first, then a reverse ask; all schedules", "every deadlock panic is justified by a chain of UNANSWERED in-flight asks at that moment (oracle computed from the trace: ask registered at first poll, answered when the target's handler returned or the target ended); known finding KF-C15-1 is recognised by its history and reported as such"))
CHECKS["C15"]["bounds"] = "2-3 actors, <= 3 asks in flight"
CHECKS["C15"]["outside"] = "more than 3 actors; asks issued from spawned sub-tasks of a handler"
CHECKS["C08"]["groups"][-1]["scenarios"].append(m("slow_start", "messages (and optionally a stop) arriving while on_start is suspended", "the idle hook is not polled at start-up while a message waits"))
for _pid in ("C01", "C13"):
    CHECKS[_pid]["groups"][-1]["scenarios"].append(m("blocking", "the C17 scenario (blocking_tell / blocking_ask with and without timeout, plain thread and spawn_blocking context, full / slow / dying mailbox)", "the same exactly-once / never-after-rejection and dead-letter rules through the blocking API"))
CHECKS["C02"]["groups"][-1]["scenarios"].append(m("blocking", "the C17 scenario: blocking_tell / blocking_ask from a plain thread and from a spawn_blocking context (runtime handle present), full mailbox, slow actor, followed by stop()", "a blocking send that returned is in the mailbox: later sends and the stop marker cannot overtake it"))
CHECKS["C10"]["groups"][-1]["scenarios"].append(m("blocking", "the blocking variants given a timeout, including Duration::MAX and handlers with scripted virtual durations", "return by the deadline, Timeout iff the deadline passed, never a panic in the caller"))
CHECKS["C08"]["groups"][-1]["scenarios"].append(m("long_idle", "on_run returns Ok(true) 140 (thorough 260) times in a row without suspending, then Ok(false); with and without messages", "every scripted invocation happens (no threshold after which idle work silently stops)"))
CHECKS["C09"]["groups"][-1]["scenarios"].append(m("slow_start", "on_start suspended twice while two clients attempt capacity+2 sends, capacity 1-2, then normal service, optionally stop()", "accepted-but-not-taken-up operations <= capacity also during start-up (a message leaves the count when its handler begins)"))
CHECKS["C04"]["groups"][-1]["scenarios"].append(m("slow_start", "traffic arriving while on_start is suspended", "nothing is handled before on_start completed"))
CHECKS["C16"]["groups"][-1]["scenarios"].append(m("blocking", "the C17 scenario (blocking_tell / blocking_ask with and without timeout from a plain thread: live / slow / full mailbox / never-answering / killed actor) with each call routed through Box<dyn TellHandler> / Box<dyn AskHandler> obtained by From, clone_boxed or downgrade+upgrade", "same results, timers, deadlines and dead letters as the direct calls"))
for _pid in ("C01", "C02", "C03", "C13"):
    CHECKS[_pid]["groups"][-1]["scenarios"].append(m("abandoned", "callers that give up: ask_with_timeout (symbolic timeout <= 4 ns, one symbolic clock advance) expiring after the mailbox accepted the message; ask / tell futures dropped at EVERY possible moment (cancellation is a scheduler choice); later traffic queued behind; capacity 1-3, slow handler", "an abandoned request is still handled exactly once and in its place; a withdrawn send is never handled; nothing hangs; no dead letter without a returned error"))
for _pid in ("C01", "C02", "C04", "C06", "C07", "C08", "C09"):
    CHECKS[_pid]["groups"][-1]["scenarios"].append(m("burst", "one sender, 12 (thorough 20) back-to-back tells + a final ask into a mailbox that holds them all; on_run periodic or one-shot; optionally a kill / stop() from a second task", "threshold-dependent behaviour (batching, burst limits) under the same monitors"))
CHECKS["C12"]["groups"].append({"engine": "mir", "features": ["deadlock-detection"], "attribute_all": True, "scenarios": [
    m("failing_alone", "the same crash points with the deadlock-detection feature compiled in", "a panic (also the deliberate deadlock panic) leaves the wait-for graph and its lock usable by the survivors"),
    m("deadlock_sound", "includes: the caller panics while its ask is in flight, later the callee asks the dead caller", "no stale edge, no spurious deadlock panic in the survivor"),
    m("deadlock_cycles", "after the deliberate panic every participant goes on")]})
CHECKS["C15"]["groups"][-1]["scenarios"][0]["bounds"] += "; + caller panics mid-ask then reverse ask"

CHECKS["C18"] = {
    "title": "Optional features never change messaging or lifecycle behaviour", "level": "model_checking",
    "technique": "differential " + SYMEX + ": behaviour sets of six feature builds compared with the default build",
    "functions": LIFE_FUNCS + ["every #[cfg(feature = ...)] block in actor.rs / actor_ref.rs / lib.rs (metrics guard + extra clone, task-local scopes, wait-for bookkeeping, dead-letter counter, tracing spans)"],
    "bounds": "8 small scenarios (tell+ask then drop; two clients + stop; kill; on_run T,F; ask_with_timeout against a slow handler with clock advances; on_run Err; handler panic; on_start Err), capacity 1, every interleaving WITHOUT partial-order reduction, for feature sets {} vs {tracing}, {metrics}, {test-utils}, {deadlock-detection}, {all four}",
    "outside": "programs with ask cycles (excluded by the property); the real tracing subscriber; the other 10 feature subsets in the quick tier",
    "assumptions": MIRENV, "trusted_base": MIRTRUST,
    "explanation": "for each build the set of per-component observable traces (client results in program order, hook sequences with arguments and outcomes, task end states, dead letters) over all explored schedules is computed; each feature build's set must equal the default build's",
    "groups": [{"engine": "mir", "kind": "featdiff", "scenario": "feature_suite",
                "feature_sets": [[], ["tracing"], ["metrics"], ["test-utils"], ["deadlock-detection"], ["deadlock-detection", "metrics", "test-utils", "tracing"]]}],
}
mircheck("C17", "Blocking API is the async API seen from a thread", SYMEX,
         [m("blocking", "15 configurations: blocking_tell/blocking_ask without timeout, the deprecated aliases with an (ignored) timeout, the timeout variants (timeouts 0, 2..50, Duration::MAX) against a live actor, an actor that never answers in time, a mailbox that stays full, a killed actor, handlers with scripted durations, spawn_blocking context; one calling thread (its whole call is one step while every other task keeps being scheduled, all choices explored) + an async sender / stopper / killer", "same C01/C02/C03/C13 monitors; with a timeout the call returns by the (virtual) deadline and never before it reports Timeout; aliases create no timer; timers carry the caller's duration")],
         "see scenario", "real OS threads, several concurrent blocking callers, wall-clock bounds, 'callable inside a runtime without panicking' (a property of real tokio's runtime-entering rules): NOT claimed",
         "the helper-thread closure and its private runtime are interpreted inline (thread::spawn runs the closure at the spawn point; Runtime::block_on drives the future while the scheduler keeps choosing other transitions)")

CHECKS["C03"]["groups"][-1]["scenarios"].append(m("ask_join_scn", "handler returns the JoinHandle of a task it spawned; the task finishes with a symbolic 8-bit value / panics / is aborted at an arbitrary moment, or the actor is killed", "ask_join returns exactly the task's output or Error::Join carrying that task's JoinError"))
CHECKS["C03"]["outside"] = "reply types other than the scripted u8 and JoinHandle<u8>"

CHECKS["C19"] = {
    "title": "Macro-generated code means what the hand-written code would", "level": "model_checking",
    "technique": SYMEX + " applied to the code GENERATED by the real macros for a corpus of programs (enumerated from the handler-signature grammar), with symbolic actor state and message payloads",
    "functions": ["the expansion of #[derive(Actor)] and #[message_handlers] (rsactor-derive, executed by rustc when the overlay is compiled) for 11 corpus programs: structs, tuple struct, enum, generic struct x return types {u32, (), Result<..>, std::result::Result<..>, path::Result<T> (one type argument, the shape of anyhow::Result<T>), self::path::Result<T> (crate-local, the shape of crate::error::Result<T>), type alias of Result, Option<..>} x {#[handler], #[handler(result)], #[handler(no_log)]} x a co-existing non-handler method", "<T as PayloadHandler<A>>::handle_message", "ActorRef::{tell,ask}", "run_actor_lifecycle"],
    "bounds": "11 generated programs (every valid return-type x option combination occurs), 2 handlers each, one tell and one ask per handler, actor state (32 bit) and the four message payloads (8 bit) symbolic; runtime half: 2 clients, 4 messages, all schedules",
    "outside": "the macro algorithm itself runs at compile time on syn trees and is not executed symbolically: programs are ENUMERATED from the grammar, only their inputs are symbolic; compile-error rows of the table (result + no_log, result on `()`) are not checked; Reply-type equality is checked through the shape of replies, not at the type level",
    "assumptions": MIRENV + ["tracing::error!/warn! are model macros that report their level to an observable hook without evaluating their arguments"],
    "trusted_base": MIRTRUST + ["rustc's macro expansion of the corpus"],
    "explanation": "for every corpus program and all values: ask replies and the final actor state equal the arithmetic of the user methods stated independently by the generator (handle == the method), reply shapes match the declared return types, derive(Actor)::on_start returns its argument unchanged (enum variant, extra fields), and the number of error events emitted by generated on_tell_result code equals the documented decision table; runtime half: on_tell_result exactly once after each tell with the handler's value, never after an ask",
    "groups": [{"engine": "mir", "features": [], "scenarios": [m("macro_runtime", "scripted actor, 2 clients, tell/ask mix, all schedules", "on_tell_result once per tell with the handler's value, never for asks, directly after the handler")]},
               {"engine": "mir", "features": ["verif-corpus"], "scenarios": [m("macro_corpus", "11 programs x symbolic state and payloads", "see explanation", xval=False)]}],
}

# ---- Kani first-poll harnesses (real Rust semantics and types; every future polled once) ----
_FP = {
    "tell": k("firstpoll::fp_tell_free_and_closed", "mailbox free/closed symbolic, message id symbolic; one poll", "Ok => exactly one envelope enqueued, no dead letter; Err(Send) => nothing enqueued, one dead letter (actor id, message TYPE, 'tell', ActorStopped)"),
    "ask": k("firstpoll::fp_ask_closed_and_accepted", "mailbox free/closed symbolic; one poll", "accepted => pending with one envelope; closed => Err(Send) + dead letter ('ask', ActorStopped, message type)"),
    "tellt": k("firstpoll::fp_tell_timeout_zero_on_full", "full mailbox, timeout 0; one poll", "Err(Timeout) at the first poll, is_retryable, the timer got the caller's duration, one dead letter ('tell', Timeout), nothing enqueued, nobody left queued for a slot"),
    "stop": k("firstpoll::fp_stop_free_and_closed", "mailbox free/closed symbolic; one poll", "stop() Ok at once; marker enqueued iff open; no dead letter"),
    "retry": k("firstpoll::fp_is_retryable_iff_timeout", "6 Error variants, symbolic fields", "is_retryable <=> Timeout"),
}
_KTRUST = ["Kani 0.68 / CBMC 6.11 / cadical", "Rust tokio model (/verif/models/tokio)", "dead_letter::record replaced by a logging stub with the same signature (kani::stub)"]
CHECKS["C19"]["groups"][0]["scenarios"].append(m("abandoned", "asks whose caller gives up (timeout / dropped future) and tells withdrawn while waiting for a slot", "on_tell_result exactly once per completed tell handler and never for an ask, also when nobody collects the ask's reply"))
# limits shared by all E-MIR checks, stated where a seeded change showed them (DESIGN.md section 9)
for _pid, _txt in (("C14", "two OS threads racing INSIDE one poll of ask() (e.g. a cycle check and the edge insert under separately taken locks): a poll is atomic in the interleaving semantics"),
                   ("C20", "readers on other OS threads holding a metrics lock during the actor's poll (lock contention inside one poll is not modelled)"),
                   ("C17", "tokio's worker scheduling (a blocked multi-thread worker never polls the task it just spawned into its own LIFO slot)")):
    CHECKS[_pid]["outside"] = (CHECKS[_pid].get("outside", "") + "; " + _txt).lstrip("; ")
CHECKS["C13"]["groups"].insert(0, {"engine": "kani", "features": [], "timeout": 400, "harnesses": [_FP["tell"], _FP["ask"], _FP["tellt"]]})
CHECKS["C10"]["groups"].insert(0, {"engine": "kani", "features": [], "timeout": 400, "harnesses": [_FP["retry"], _FP["tellt"]]})
CHECKS["C01"]["groups"].insert(0, {"engine": "kani", "features": [], "timeout": 400, "harnesses": [_FP["tell"], _FP["stop"]]})
for _p in ("C13", "C10", "C01"):
    CHECKS[_p]["technique"] = "Kani/CBMC (first-poll paths of the real send functions, real types) + " + CHECKS[_p]["technique"]
    CHECKS[_p]["trusted_base"] = CHECKS[_p]["trusted_base"] + _KTRUST
    CHECKS[_p]["assumptions"] = CHECKS[_p]["assumptions"] + STUBS
CHECKS["C13"]["outside"] = "the counter under real thread concurrency (a single Relaxed fetch_add per record, see C11's interleaving argument); the text of the tracing event"
CHECKS["C10"]["outside"] = "the real timer wheel; wall-clock behaviour of the blocking variants (C17)"
